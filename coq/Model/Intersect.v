(* C06: line / polyline intersections (geom2/line2.rs intersection_param, geom2/polyline2.rs). The bounding
   volume tree is parry's; its pruning test (cast_ray, one lane) is modelled as slab_hit and proved never to
   discard a box the line meets, so the accelerated search equals the per-edge scan. *)
From Coq Require Import ZArith List Bool Arith.
From EG Require Import Num.Num Lib.Vec Model.Types.
Import ListNotations.

Section Intersect.
  Context {N : Num}.
  Local Open Scope num_scope.

  Definition DET_TOL : num := nlit 1 (-12).
  Definition DEDUP_TOL : num := nlit 1 (-8).

  (* intersection_param: parameters along line a and line b of their crossing; None when (near) parallel *)
  Definition intersection_param (a0 ad b0 bd : V2) : option (num * num) :=
    let det := fst bd * snd ad - snd bd * fst ad in
    if nabs det <? DET_TOL then None
    else
      let dx := fst b0 - fst a0 in
      let dy := snd b0 - snd a0 in
      Some ((dy * fst bd - dx * snd bd) / det, (dy * fst ad - dx * snd ad) / det).

  (* ray_intersect_with_edge: (0.0..=1.0).contains(&t1) *)
  Definition ray_edge (o d v0 v1 : V2) : option num :=
    match intersection_param o d v0 (sub2 v1 v0) with
    | Some (t0, t1) => if (n0 <=? t1) && (t1 <=? n1) then Some t0 else None
    | None => None
    end.

  (* the per-edge scan: (t, edge index) for every edge that is hit, in edge order *)
  Fixpoint naive_from (o d : V2) (pts : list V2) (i : nat) : list (num * nat) :=
    match pts with
    | v0 :: ((v1 :: _) as rest) =>
        match ray_edge o d v0 v1 with
        | Some t => (t, i) :: naive_from o d rest (S i)
        | None => naive_from o d rest (S i)
        end
    | _ => []
    end.
  Definition naive (o d : V2) (pts : list V2) : list (num * nat) := naive_from o d pts 0.

  (* stable sort by t (insertion sort: any stable sort gives the same list), then dedup_by |dt| < 1e-8
     against the last kept element *)
  Fixpoint insert_hit (x : num * nat) (l : list (num * nat)) : list (num * nat) :=
    match l with
    | [] => [x]
    | y :: l' => if fst x <? fst y then x :: l else y :: insert_hit x l'
    end.
  Definition sort_hits (l : list (num * nat)) : list (num * nat) := fold_left (fun acc x => insert_hit x acc) l [].
  Fixpoint dedup_hits (kept : num * nat) (l : list (num * nat)) : list (num * nat) :=
    match l with
    | [] => []
    | x :: l' => if nabs (fst x - fst kept) <? DEDUP_TOL then dedup_hits kept l' else x :: dedup_hits x l'
    end.
  Definition post (l : list (num * nat)) : list (num * nat) :=
    match sort_hits l with [] => [] | x :: l' => x :: dedup_hits x l' end.

  Definition polyline_intersections (o d : V2) (pts : list V2) : list (num * nat) := post (naive o d pts).

  (* one lane of cast_ray: slab test of the infinite line against a box, with the relative slack *)
  (* sl = 8 * f64::EPSILON, fmax = f64::MAX: parameters so that the same text is proved over the reals (any sl >= 0) *)
  Definition slab_axis (sl : num) (o d lo hi : num) (tmin tmax : num) : bool * num * num :=
    if d =? n0 then ((lo <=? o) && (o <=? hi), tmin, tmax)
    else
      let denom := n1 / d in
      let near := (lo - o) * denom in
      let far := (hi - o) * denom in
      let near' := if far <? near then far else near in
      let far' := if far <? near then near else far in
      let tmin' := nmax tmin near' in
      let tmax' := nmin tmax far' in
      let slack := (nmax tmin' (- tmin') + nmax tmax' (- tmax')) * sl in
      (tmin' <=? tmax' + slack, tmin', tmax').
  Definition slab_hit (sl fmax : num) (o d mins maxs : V2) : bool :=
    let '(h0, tmin, tmax) := slab_axis sl (fst o) (fst d) (fst mins) (fst maxs) (- fmax) fmax in
    let '(h1, _, _) := slab_axis sl (snd o) (snd d) (snd mins) (snd maxs) tmin tmax in
    h0 && h1.

  (* spanning_ray: exactly two intersections *)
  Definition spanning_ray (o d : V2) (pts : list V2) : option (V2 * V2) :=
    match polyline_intersections o d pts with
    | [(t0, _); (t1, _)] =>
        let p0 := add2 o (scale2 d t0) in let p1 := add2 o (scale2 d t1) in Some (p0, sub2 p1 p0)
    | _ => None
    end.

  (* max_intersection: max_by partial_cmp returns the last maximum; the list is sorted, so its last element *)
  Definition max_intersection (o d : V2) (pts : list V2) : option num :=
    match polyline_intersections o d pts with
    | [] => None
    | x :: l => Some (fst (last l x))
    end.

  Definition farthest_distance (o d : V2) (pts : list V2) (fmin : num) : num :=
    let n := normalize2 d in
    fold_left (fun acc v => nmax acc (dot2 n (sub2 v o))) pts fmin.
End Intersect.
