(* C10: the core of the airfoil analysis, airfoil/helpers.rs inscribed_from_spanning_ray: bisection along a spanning ray for the
   centre of the inscribed circle, driven by the closest point of the section (C02's specification of the polyline query). *)
From Coq Require Import ZArith List Bool Arith.
From EG Require Import Num.Num Lib.Vec Model.Types Model.Curve Model.Closest.
Import ListNotations.

Section Inscribed.
  Context {N : Num}.
  Local Open Scope num_scope.

  Record sray := mkSRay { sr_origin : V2; sr_dir : V2 }.          (* SpanningRay: origin and full-length direction *)
  Definition ray_at (r : sray) (f : num) : V2 := add2 (sr_origin r) (scale2 (sr_dir r) f).
  Record side := mkSide { s_frac : num; s_dist : num; s_pt : V2 }.  (* InscribedCircleSearchState *)

  Definition closest_pt (pts : list V2) (w : V2) : V2 :=
    match poly_closest (@VO2 N) w pts with Some (_, _, _, c) => c | None => w end.

  Definition ihalf : num := nlit 5 (-1).

  Fixpoint bisect (fuel : nat) (pts : list V2) (r : sray) (tol : num) (pos neg : side) : option (side * side) :=
    match fuel with
    | O => None
    | S fuel' =>
        if (s_frac pos - s_frac neg) * norm2 (sr_dir r) >? tol then
          let fraction := (s_frac pos + s_frac neg) * ihalf in
          let working := ray_at r fraction in
          let cp := closest_pt pts working in
          let to_closest := sub2 cp working in
          let distance := dist2 working cp in
          if dot2 to_closest (sr_dir r) >? n0 then bisect fuel' pts r tol (mkSide fraction distance cp) neg
          else bisect fuel' pts r tol pos (mkSide fraction distance cp)
        else Some (pos, neg)
    end.

  (* centre, radius, positive contact, negative contact *)
  Definition inscribed (fuel : nat) (pts : list V2) (r : sray) (tol : num) : option (V2 * num * V2 * V2) :=
    match bisect fuel pts r tol (mkSide n1 n0 (ray_at r n1)) (mkSide n0 n0 (ray_at r n0)) with
    | Some (pos, neg) => Some (ray_at r ((s_frac pos + s_frac neg) * ihalf), (s_dist pos + s_dist neg) * ihalf, s_pt pos, s_pt neg)
    | None => None
    end.
End Inscribed.
