(* C19: two-vector frame constructors (geom3/iso3.rs), principal-axis basis bookkeeping (common/svd_basis.rs,
   common/points.rs mean_point and mean_point_weighted), planes (geom3/plane3.rs).  nalgebra's SVD and UnitQuaternion::from_matrix are
   oracles: their outputs are certified per run (Tie/C19.v), everything around them is modelled. *)
From Coq Require Import ZArith List Bool Arith.
From EG Require Import Num.Num Lib.Vec Model.Types.
Import ListNotations.

Section Frames.
  Context {N : Num}.
  Local Open Scope num_scope.

  Definition MIN_NORM : num := nlit 1 (-10).

  (* Vector3::try_normalize(1e-10): None when norm <= min_norm *)
  Definition try_normalize3_min (v : V3) (min_norm : num) : option V3 :=
    let n := norm3 v in if n <=? min_norm then None else Some (div3 v n).
  Definition try_normalize3 (v : V3) : option V3 := try_normalize3_min v MIN_NORM.
  (* the cross product with the raw second argument b is tested against 1e-10 * |b|: a test on the sine of the angle *)
  Definition try_cross (v b : V3) : option V3 := try_normalize3_min v (MIN_NORM * norm3 b).

  (* a frame: images of the x, y and z axes *)
  Definition frame : Type := (V3 * V3 * V3)%type.

  Definition obind {A B} (o : option A) (f : A -> option B) : option B := match o with Some a => f a | None => None end.

  Definition basis_xy (a b : V3) : option frame :=
    obind (try_normalize3 a) (fun e0 => obind (try_cross (cross3 e0 b) b) (fun e2 =>
    obind (try_normalize3 (cross3 e2 e0)) (fun e1 => Some (e0, e1, e2)))).
  Definition basis_xz (a b : V3) : option frame :=
    obind (try_normalize3 a) (fun e0 => obind (try_cross (cross3 b e0) b) (fun e1 =>
    obind (try_normalize3 (cross3 e0 e1)) (fun e2 => Some (e0, e1, e2)))).
  Definition basis_yz (a b : V3) : option frame :=
    obind (try_normalize3 a) (fun e1 => obind (try_cross (cross3 e1 b) b) (fun e0 =>
    obind (try_normalize3 (cross3 e0 e1)) (fun e2 => Some (e0, e1, e2)))).
  Definition basis_yx (a b : V3) : option frame :=
    obind (try_normalize3 a) (fun e1 => obind (try_cross (cross3 b e1) b) (fun e2 =>
    obind (try_normalize3 (cross3 e1 e2)) (fun e0 => Some (e0, e1, e2)))).
  Definition basis_zx (a b : V3) : option frame :=
    obind (try_normalize3 a) (fun e2 => obind (try_cross (cross3 e2 b) b) (fun e1 =>
    obind (try_normalize3 (cross3 e1 e2)) (fun e0 => Some (e0, e1, e2)))).
  Definition basis_zy (a b : V3) : option frame :=
    obind (try_normalize3 a) (fun e2 => obind (try_cross (cross3 b e2) b) (fun e0 =>
    obind (try_normalize3 (cross3 e2 e0)) (fun e1 => Some (e0, e1, e2)))).

  (* iso3_from_xyo: the rotation columns before inversion *)
  Definition frame_xyo (x0 y : V3) : frame :=
    let y0 := normalize3 (sub3 y (scale3 x0 (dot3 x0 y))) in
    let z0 := normalize3 (cross3 x0 y0) in (x0, y0, z0).
  (* iso3_from_basis *)
  Definition frame_from_basis (b0 b1 : V3) : frame :=
    let e0 := normalize3 b0 in let e1 := normalize3 b1 in (e0, e1, normalize3 (cross3 e0 e1)).

  (* ---- mean points and the centring step ---- *)
  Definition mean3 (pts : list V3) : V3 :=
    div3 (fold_left add3 pts (n0, n0, n0)) (nofnat (length pts)).
  Definition wsum3 (pts : list V3) (w : list num) : V3 * num :=
    fold_left (fun acc pw => (add3 (fst acc) (scale3 (fst pw) (snd pw)), snd acc + snd pw)) (combine pts w) ((n0, n0, n0), n0).
  Definition mean3_weighted (pts : list V3) (w : list num) : V3 :=
    let s := wsum3 pts w in div3 (fst s) (snd s).
  (* the weights are relative: each is divided by the mean weight (w.iter().sum() / w.len()) *)
  Definition mean_weight (w : list num) : num := fold_left nadd w n0 / nofnat (length w).
  Definition centred3 (pts : list V3) (w : option (list num)) : V3 * list V3 :=
    match w with
    | Some w => let c := mean3_weighted pts w in let mw := mean_weight w in
                (c, map (fun pw => scale3 (sub3 (fst pw) c) (snd pw / mw)) (combine pts w))
    | None => let c := mean3 pts in (c, map (fun p => sub3 p c) pts)
    end.

  Definition mean2 (pts : list V2) : V2 :=
    div2 (fold_left add2 pts (n0, n0)) (nofnat (length pts)).
  Definition wsum2 (pts : list V2) (w : list num) : V2 * num :=
    fold_left (fun acc pw => (add2 (fst acc) (scale2 (fst pw) (snd pw)), snd acc + snd pw)) (combine pts w) ((n0, n0), n0).
  Definition mean2_weighted (pts : list V2) (w : list num) : V2 :=
    let s := wsum2 pts w in div2 (fst s) (snd s).
  Definition centred2 (pts : list V2) (w : option (list num)) : V2 * list V2 :=
    match w with
    | Some w => let c := mean2_weighted pts w in let mw := mean_weight w in
                (c, map (fun pw => scale2 (sub2 (fst pw) c) (snd pw / mw)) (combine pts w))
    | None => let c := mean2 pts in (c, map (fun p => sub2 p c) pts)
    end.

  (* ---- SvdBasis accessors ---- *)
  Definition variances (sv : list num) (n : nat) : list num := map (fun s => s * s / nofnat n) sv.
  Definition stdevs (sv : list num) (n : nat) : list num := map nsqrt (variances sv n).
  Definition rank (sv : list num) (tol : num) : nat := length (filter (fun s => tol <? s) sv).

  Definition to_basis3 (b : frame) (c p : V3) : V3 :=
    let '(b0, b1, b2) := b in let v := sub3 p c in mk3 (dot3 b0 v) (dot3 b1 v) (dot3 b2 v).
  Definition from_basis3 (b : frame) (c q : V3) : V3 :=
    let '(b0, b1, b2) := b in
    add3 (add3 (add3 (add3 (n0, n0, n0) (scale3 b0 (x3 q))) (scale3 b1 (y3 q))) (scale3 b2 (z3 q))) c.
  Definition to_basis2 (b0 b1 c p : V2) : V2 := let v := sub2 p c in (dot2 b0 v, dot2 b1 v).
  Definition from_basis2 (b0 b1 c q : V2) : V2 :=
    add2 (add2 (add2 (n0, n0) (scale2 b0 (fst q))) (scale2 b1 (snd q))) c.

  (* ---- Plane3 ---- *)
  Record plane := mkPlane { pn : V3; pd : num }.
  Definition plane_from_np (n p : V3) : plane := mkPlane n (dot3 n p).
  Definition plane_from_3 (p1 p2 p3 : V3) : plane :=
    plane_from_np (normalize3 (cross3 (sub3 p2 p1) (sub3 p3 p1))) p1.
  Definition plane_inverted (pl : plane) : plane := mkPlane (neg3 (pn pl)) (- pd pl).
  Definition plane_signed (pl : plane) (q : V3) : num := dot3 (pn pl) q - pd pl.
  Definition plane_dist (pl : plane) (q : V3) : num := nabs (plane_signed pl q).
  Definition plane_project (pl : plane) (q : V3) : V3 := sub3 q (scale3 (pn pl) (plane_signed pl q)).
End Frames.
