(* C03: rigid motions as explicit matrices and the transform operations of the library
   (Curve2/Curve3::transformed_by, SurfacePoint::transformed, Plane3::transform_by, PointCloud::transform,
   Segment2::transform_by, Distance2::to_3d / Distance3::to_2d). nalgebra's quaternion / unit-complex
   representation is read back as the matrix it applies (checked per case in Tie/C03.v). *)
From Coq Require Import ZArith List Bool Arith.
From EG Require Import Num.Num Lib.Vec Model.Types Model.TolMap Model.Curve Model.Frames.
Import ListNotations.

Section Rigid.
  Context {N : Num}.
  Local Open Scope num_scope.

  (* 2D: rotation (c -s; s c) and translation *)
  Record rigid2 := mkRigid2 { r2c : num; r2s : num; r2t : V2 }.
  Definition rot2 (T : rigid2) (v : V2) : V2 := (r2c T * fst v - r2s T * snd v, r2s T * fst v + r2c T * snd v).
  Definition apply2 (T : rigid2) (p : V2) : V2 := add2 (rot2 T p) (r2t T).
  Definition inv2 (T : rigid2) : rigid2 :=
    let Ti := mkRigid2 (r2c T) (- r2s T) (n0, n0) in mkRigid2 (r2c T) (- r2s T) (neg2 (rot2 Ti (r2t T))).
  Definition compose2 (U T : rigid2) : rigid2 :=      (* U after T *)
    mkRigid2 (r2c U * r2c T - r2s U * r2s T) (r2s U * r2c T + r2c U * r2s T) (apply2 U (r2t T)).

  (* 3D: columns = images of the x, y, z axes, and translation *)
  Record rigid3 := mkRigid3 { r3x : V3; r3y : V3; r3z : V3; r3t : V3 }.
  Definition rot3 (T : rigid3) (v : V3) : V3 :=
    add3 (add3 (scale3 (r3x T) (x3 v)) (scale3 (r3y T) (y3 v))) (scale3 (r3z T) (z3 v)).
  Definition apply3 (T : rigid3) (p : V3) : V3 := add3 (rot3 T p) (r3t T).
  Definition inv3 (T : rigid3) : rigid3 :=
    let tx := mk3 (x3 (r3x T)) (x3 (r3y T)) (x3 (r3z T)) in
    let ty := mk3 (y3 (r3x T)) (y3 (r3y T)) (y3 (r3z T)) in
    let tz := mk3 (z3 (r3x T)) (z3 (r3y T)) (z3 (r3z T)) in
    let Ri := mkRigid3 tx ty tz (mk3 n0 n0 n0) in
    mkRigid3 tx ty tz (neg3 (rot3 Ri (r3t T))).
  Definition compose3 (U T : rigid3) : rigid3 :=
    mkRigid3 (rot3 U (r3x T)) (rot3 U (r3y T)) (rot3 U (r3z T)) (apply3 U (r3t T)).

  (* curves: map the vertices and rebuild with the same tolerance and closedness (unwrap) *)
  Definition curve_transformed (V : VOps) (c : curve V) (T : pt V -> pt V) : res (curve V) :=
    match from_points V (cavg V c) (map T (cpts V c)) (ctol V c) (cclosed V c) with Ok r => Ok r | _ => Panic end.

  (* surface points *)
  Definition sp3 : Type := (V3 * V3)%type.
  Definition sp3_transformed (T : rigid3) (s : sp3) : sp3 := (apply3 T (fst s), rot3 T (snd s)).
  Definition sp3_scalar_projection (s : sp3) (q : V3) : num := dot3 (snd s) (sub3 q (fst s)).
  Definition sp3_projection (s : sp3) (q : V3) : V3 := add3 (fst s) (scale3 (snd s) (sp3_scalar_projection s q)).
  Definition sp3_planar_distance (s : sp3) (q : V3) : num := norm3 (sub3 (sp3_projection s q) q).
  Definition sp2 : Type := (V2 * V2)%type.
  Definition sp2_transformed (T : rigid2) (s : sp2) : sp2 := (apply2 T (fst s), rot2 T (snd s)).
  Definition sp2_scalar_projection (s : sp2) (q : V2) : num := dot2 (snd s) (sub2 q (fst s)).
  Definition sp2_projection (s : sp2) (q : V2) : V2 := add2 (fst s) (scale2 (snd s) (sp2_scalar_projection s q)).
  Definition sp2_planar_distance (s : sp2) (q : V2) : num := norm2 (sub2 (sp2_projection s q) q).

  (* Plane3::transform_by: through the surface point (n * d, n) *)
  Definition plane_transform (T : rigid3) (pl : plane) : plane :=
    let s := sp3_transformed T (scale3 (pn pl) (pd pl), pn pl) in plane_from_np (snd s) (fst s).

  (* Distance<D>: value = direction . (b - a); 2D -> 3D adds z = 0 and transforms, 3D -> 2D transforms and drops z
     (the dropped direction is re-normalised) *)
  Definition dist2_value (a b dir : V2) : num := dot2 dir (sub2 b a).
  Definition dist3_value (a b dir : V3) : num := dot3 dir (sub3 b a).
  Definition up3 (p : V2) : V3 := mk3 (fst p) (snd p) n0.
  Definition down2 (p : V3) : V2 := (x3 p, y3 p).
  Definition dist_to_3d (T : rigid3) (a b dir : V2) : V3 * V3 * V3 :=
    (apply3 T (up3 a), apply3 T (up3 b), rot3 T (normalize3 (up3 dir))).
  Definition dist_to_2d (T : rigid3) (a b dir : V3) : V2 * V2 * V2 :=
    (down2 (apply3 T a), down2 (apply3 T b), normalize2 (down2 (rot3 T dir))).
End Rigid.
