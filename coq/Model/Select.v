(* C14: mesh face selection (geom3/mesh/filtering.rs).  Geometry enters through abstract, cache-free
   oracles: the vertex-only part of the near test and the per-(face, reference normal) angle test.
   HashSet iteration order is an explicit permutation of the selection. *)
From Coq Require Import ZArith List Bool Arith.
Import ListNotations.

Inductive select_op := OpAdd | OpRemove | OpKeep.

Definition mem (x : nat) (l : list nat) : bool := existsb (Nat.eqb x) l.

Section Select.
  Variable nfaces : nat.

  (* to_check: faces evaluated for a mode; [ord] is the iteration order of the selection HashSet *)
  Definition to_check (sel ord : list nat) (mode : select_op) : list nat :=
    match mode with
    | OpAdd => filter (fun i => negb (mem i sel)) (seq 0 nfaces)
    | OpRemove | OpKeep => ord
    end.

  Definition insert_set (x : nat) (s : list nat) : list nat := if mem x s then s else s ++ [x].
  Definition remove_set (x : nat) (s : list nat) : list nat := filter (fun y => negb (y =? x)) s.

  Definition mutate_pass_list (sel : list nat) (mode : select_op) (pass : list nat) : list nat :=
    match mode with
    | OpAdd => fold_left (fun s i => insert_set i s) pass sel
    | OpRemove => fold_left (fun s i => remove_set i s) pass sel
    | OpKeep => filter (fun i => mem i pass) sel
    end.

  (* mutate with a pure predicate (facing) *)
  Definition mutate (sel : list nat) (mode : select_op) (pred : nat -> bool) : list nat :=
    match mode with
    | OpAdd => fold_left (fun s i => if negb (mem i s) && pred i then s ++ [i] else s) (seq 0 nfaces) sel
    | OpRemove => filter (fun i => negb (pred i)) sel
    | OpKeep => filter pred sel
    end.

  (* ---- near_mesh with the MeshNearCheck cache ---- *)
  Variable Nrm : Type.
  Variable tri : nat -> nat * nat * nat.          (* vertex ids of a face *)
  Variable V : nat -> bool * option Nrm.          (* vertex-only part: (ok, reference normal) *)
  Variable ang : nat -> Nrm -> bool.              (* angle test of face f against a reference normal *)
  Variable has_angle_tol : bool.

  Definition cache := list (nat * (bool * option Nrm)).
  Fixpoint lookup (c : cache) (v : nat) : option (bool * option Nrm) :=
    match c with
    | [] => None
    | (k, r) :: c' => if k =? v then Some r else lookup c' v
    end.

  Definition angle_part (r : bool * option Nrm) (f : nat) : bool :=
    if has_angle_tol then match snd r with Some rn => ang f rn | None => true end else true.

  Definition near_check (c : cache) (v f : nat) : bool * cache :=
    let '(r, c') := match lookup c v with Some r => (r, c) | None => (V v, (v, V v) :: c) end in
    (if fst r then angle_part r f else false, c').

  (* short-circuit evaluation over the three vertices *)
  Definition face_pass (all_points : bool) (c : cache) (f : nat) : bool * cache :=
    let '(v0, v1, v2) := tri f in
    let '(b0, c0) := near_check c v0 f in
    if all_points then
      if b0 then let '(b1, c1) := near_check c0 v1 f in
                 if b1 then near_check c1 v2 f else (false, c1)
      else (false, c0)
    else
      if b0 then (true, c0)
      else let '(b1, c1) := near_check c0 v1 f in
           if b1 then (true, c1) else near_check c1 v2 f.

  Fixpoint filter_faces (all_points : bool) (c : cache) (l : list nat) : list nat * cache :=
    match l with
    | [] => ([], c)
    | f :: l' =>
        let '(b, c1) := face_pass all_points c f in
        let '(r, c2) := filter_faces all_points c1 l' in
        (if b then f :: r else r, c2)
    end.

  Definition near_mesh (sel ord : list nat) (all_points : bool) (mode : select_op) : list nat :=
    mutate_pass_list sel mode (fst (filter_faces all_points [] (to_check sel ord mode))).

  (* the cache-free per-face criterion *)
  Definition pure_vertex (v f : nat) : bool := if fst (V v) then angle_part (V v) f else false.
  Definition pure_face (all_points : bool) (f : nat) : bool :=
    let '(v0, v1, v2) := tri f in
    if all_points then pure_vertex v0 f && pure_vertex v1 f && pure_vertex v2 f
    else pure_vertex v0 f || pure_vertex v1 f || pure_vertex v2 f.
End Select.

(* ---- Mesh::create_from_indices / unique_vertices ---- *)
Fixpoint insert_sorted (x : nat) (l : list nat) : list nat :=
  match l with
  | [] => [x]
  | y :: l' => if x <? y then x :: l else if x =? y then l else y :: insert_sorted x l'
  end.
Definition unique_vertices (faces : list (nat * nat * nat)) (idx : list nat) : list nat :=
  fold_left (fun acc i => let '(a, b, c) := nth i faces (0, 0, 0) in
                          insert_sorted c (insert_sorted b (insert_sorted a acc))) idx [].
Fixpoint index_in (x : nat) (l : list nat) (i : nat) : option nat :=
  match l with
  | [] => None
  | y :: l' => if x =? y then Some i else index_in x l' (S i)
  end.
Definition remap_face (keep : list nat) (f : nat * nat * nat) : option (nat * nat * nat) :=
  let '(a, b, c) := f in
  match index_in a keep 0, index_in b keep 0, index_in c keep 0 with
  | Some x, Some y, Some z => Some (x, y, z)
  | _, _, _ => None          (* map_back[&..] would panic *)
  end.
(* result: kept old vertex ids (new vertex j is old vertex keep[j]) and the remapped triangles *)
Definition create_from_indices (faces : list (nat * nat * nat)) (idx : list nat)
  : option (list nat * list (nat * nat * nat)) :=
  let keep := unique_vertices faces idx in
  let tris := map (fun i => remap_face keep (nth i faces (0, 0, 0))) idx in
  if forallb (fun o => match o with Some _ => true | None => false end) tris
  then Some (keep, flat_map (fun o => match o with Some t => [t] | None => [] end) tris)
  else None.
