(* C10: the container and ordering logic of the airfoil analysis (airfoil/helpers.rs, inscribed_circle.rs):
   InscribedCircle::reversed, reverse_inscribed_circles, OrientedCircles (push / last / take_circles), find_tmax_circle.
   The camber extraction itself is certified per analysed section. *)
From Coq Require Import ZArith List Bool Arith.
From EG Require Import Num.Num Lib.Vec Model.Types Model.TolMap Model.Curve Model.Closest.
Import ListNotations.

Section Airfoil.
  Context {N : Num}.
  Local Open Scope num_scope.

  Record station := mkSt { s_c : V2; s_r : num; s_pos : V2; s_neg : V2; s_ro : V2; s_rd : V2 }.

  (* SpanningRay::reversed = new(point_at(1), origin): origin o + d, direction o - (o + d) *)
  Definition st_reversed (s : station) : station :=
    let o' := add2 (s_ro s) (scale2 (s_rd s) n1) in
    mkSt (s_c s) (s_r s) (s_neg s) (s_pos s) o' (sub2 (s_ro s) o').
  Definition reverse_inscribed_circles (l : list station) : list station := map st_reversed (rev l).

  Record oriented := mkOr { o_circles : list station; o_reversed : bool }.
  Definition o_last (o : oriented) : option station :=
    if o_reversed o then hd_error (o_circles o) else hd_error (rev (o_circles o)).
  Definition o_push (o : oriented) (c : station) : oriented :=
    let c' := match o_last o with
              | Some l => if dot2 (s_rd l) (s_rd c) <? n0 then st_reversed c else c
              | None => c
              end in
    mkOr (if o_reversed o then c' :: o_circles o else o_circles o ++ [c']) (o_reversed o).

  (* first strict maximum of the diameter, starting from 0 *)
  Definition find_tmax (l : list station) : option station :=
    snd (fold_left (fun acc s => let d := s_r s * n2 in if fst acc <? d then (d, Some s) else acc) l (n0, None)).

  (* ---- airfoil/orientation.rs ---- *)
  (* DirectionFwd: the end that is further along the given direction comes first *)
  Definition direction_fwd (dir : V2) (l : list station) : res (list station) :=
    match l with
    | [] => Err
    | s0 :: _ =>
        if dot2 dir (s_c s0) <? dot2 dir (s_c (last l s0)) then Ok (reverse_inscribed_circles l) else Ok l
    end.

  (* TMaxFwd: where along the polyline of centres (tolerance 1e-4, C01) the closest point (C02) to the centre of the
     largest circle lies, as a fraction of its length *)
  Definition tmax_fraction (l : list station) : res num :=
    match from_points VO2 true (map s_c l) (nlit 1 (-4)) false with
    | Ok cam =>
        match find_tmax l with
        | Some t =>
            match poly_closest VO2 (s_c t) (cpts VO2 cam) with
            | Some (_, i, f, p) => Ok (length_along VO2 cam (mkStation VO2 p p i f) / clength VO2 cam)
            | None => Panic
            end
        | None => Err
        end
    | Err => Err
    | Panic => Panic
    end.
  Definition tmax_fwd (l : list station) : res (list station) :=
    match tmax_fraction l with
    | Ok f => if nlit 5 (-1) <? f then Ok (reverse_inscribed_circles l) else Ok l
    | Err => Err
    | Panic => Panic
    end.
End Airfoil.
