(* C16: PointCloud as a state machine (geom3/point_cloud.rs).  Elements are abstract:
   the property is about the parallel vectors staying the same length. *)
From Coq Require Import ZArith List Bool.
From EG Require Import Num.Num.
Import ListNotations.

Section Cloud.
  Context {P Nm C : Type}.

  Record cloud := mkCloud { pts : list P; nrm : option (list Nm); col : option (list C) }.

  Definition is_some {X} (o : option X) : bool := match o with Some _ => true | None => false end.

  Definition cloud_try_new (p : list P) (n : option (list Nm)) (c : option (list C)) : res cloud :=
    match n with
    | Some nl => if Nat.eqb (length nl) (length p) then
        match c with
        | Some cl => if Nat.eqb (length cl) (length p) then Ok (mkCloud p n c) else Err
        | None => Ok (mkCloud p n c)
        end else Err
    | None =>
        match c with
        | Some cl => if Nat.eqb (length cl) (length p) then Ok (mkCloud p n c) else Err
        | None => Ok (mkCloud p n c)
        end
    end.

  Definition cloud_empty (hn hc : bool) : cloud :=
    mkCloud [] (if hn then Some [] else None) (if hc then Some [] else None).

  Definition opt_app {X} (a b : option (list X)) : option (list X) :=
    match a, b with
    | Some x, Some y => Some (x ++ y)
    | Some x, None => Some x
    | None, _ => None      (* unreachable after the pre-checks: as_mut().unwrap() would panic *)
    end.

  (* merge: pre-checks, then extend; returns the new state and whether it was accepted *)
  Definition cloud_merge (s other : cloud) : cloud * bool :=
    if negb (Bool.eqb (is_some (nrm s)) (is_some (nrm other))) then (s, false)
    else if negb (Bool.eqb (is_some (col s)) (is_some (col other))) then (s, false)
    else (mkCloud (pts s ++ pts other) (opt_app (nrm s) (nrm other)) (opt_app (col s) (col other)), true).

  Definition cloud_append (s : cloud) (p : P) (n : option Nm) (c : option C) : cloud * bool :=
    if negb (Bool.eqb (is_some (nrm s)) (is_some n)) then (s, false)
    else if negb (Bool.eqb (is_some (col s)) (is_some c)) then (s, false)
    else (mkCloud (pts s ++ [p])
            (match nrm s, n with Some l, Some x => Some (l ++ [x]) | o, _ => o end)
            (match col s, c with Some l, Some x => Some (l ++ [x]) | o, _ => o end), true).

  (* create_from_indices: checked indexing (panic when out of range), then try_new(..).unwrap() *)
  Fixpoint pick {X} (l : list X) (idx : list nat) : option (list X) :=
    match idx with
    | [] => Some []
    | i :: idx' => match nth_error l i, pick l idx' with
                   | Some x, Some r => Some (x :: r)
                   | _, _ => None
                   end
    end.
  Definition cloud_select (s : cloud) (idx : list nat) : res cloud :=
    match pick (pts s) idx with
    | None => Panic
    | Some p =>
      match (match nrm s with None => Some None | Some l => option_map Some (pick l idx) end),
            (match col s with None => Some None | Some l => option_map Some (pick l idx) end) with
      | Some n, Some c => match cloud_try_new p n c with Ok r => Ok r | _ => Panic end
      | _, _ => Panic
      end
    end.

  Inductive cop :=
  | OpAppend (p : P) (n : option Nm) (c : option C)
  | OpMerge (p : list P) (n : option (list Nm)) (c : option (list C))  (* other = try_new p n c *)
  | OpSelect (idx : list nat).

  (* one step of a history: state, and a tag 0 accepted / 1 rejected / 2 panic *)
  Definition cloud_step (s : cloud) (o : cop) : cloud * Z :=
    match o with
    | OpAppend p n c => let '(s', ok) := cloud_append s p n c in (s', if ok then 0%Z else 1%Z)
    | OpMerge p n c =>
        match cloud_try_new p n c with
        | Ok other => let '(s', ok) := cloud_merge s other in (s', if ok then 0%Z else 1%Z)
        | _ => (s, 1%Z)
        end
    | OpSelect idx =>
        match cloud_select s idx with
        | Ok s' => (s', 0%Z)
        | Err => (s, 1%Z)
        | Panic => (s, 2%Z)
        end
    end.

  Definition cloud_inv (s : cloud) : Prop :=
    (forall l, nrm s = Some l -> length l = length (pts s)) /\
    (forall l, col s = Some l -> length l = length (pts s)).

  Definition cloud_run (s : cloud) (ops : list cop) : cloud :=
    fold_left (fun st o => fst (cloud_step st o)) ops s.
End Cloud.
Arguments cloud : clear implicits.
Arguments cop : clear implicits.
