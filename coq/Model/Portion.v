(* C04: curve portions (geom2/curve2.rs between_lengths and what is built on it), generic over the vector
   operations like Model/Curve.v; Curve2 only in the code (Curve3 has no portioning). *)
From Coq Require Import ZArith List Bool Arith.
From EG Require Import Num.Num Lib.Vec Model.TolMap Model.Curve.
Import ListNotations.

Section Portion.
  Context {N : Num} (V : VOps).
  Local Open Scope num_scope.
  Notation P := (pt V).

  (* the walk of between_lengths: one iteration per fuel unit; None = fuel exhausted (non-termination) *)
  Fixpoint walk (fuel : nat) (c : curve V) (e : station V) (last_index : nat) (working : station V) (wrap : bool)
           (acc : list P) : option (list P) :=
    match fuel with
    | O => None
    | S fuel' =>
        let acc := acc ++ [st_point V working] in
        let next_index := S (st_index V working) in
        if (last_index <? next_index)%nat then
          if negb wrap then Some acc else walk fuel' c e last_index (at_front V c) false acc
        else if (length_along V c working <=? length_along V c e) && (st_index V e <? next_index)%nat then Some acc
        else walk fuel' c e last_index (at_vertex V c next_index) wrap acc
    end.

  (* the raw point list handed to from_points *)
  Definition portion_points (c : curve V) (l0 l1 : num) : res (option (list P)) :=
    match at_length V c l0, at_length V c l1 with
    | Some s, Some e =>
        let wrap := length_along V c e <? length_along V c s in
        let last_index := if cclosed V c then (count V c - 2)%nat else (count V c - 1)%nat in
        if (nabs (l1 - l0) <? ctol V c) || (negb (cclosed V c) && wrap) then Ok None
        else match walk (2 * count V c + 4) c e last_index s wrap [] with
             | None => Panic
             | Some pts =>
                 let pts := if ctol V c <? vdist V (st_point V e) (last pts (vzero V)) then pts ++ [st_point V e] else pts in
                 Ok (Some pts)
             end
    | _, _ => Ok None
    end.

  Definition between_lengths (c : curve V) (l0 l1 : num) : res (option (curve V)) :=
    match portion_points c l0 l1 with
    | Ok (Some pts) => match from_points V (cavg V c) pts (ctol V c) false with Ok r => Ok (Some r) | _ => Ok None end
    | Ok None => Ok None
    | Err => Err | Panic => Panic
    end.

  (* `control < lower || control > upper && self.is_closed`: && binds tighter *)
  Definition between_lengths_by_control (c : curve V) (a b control : num) : res (option (curve V)) :=
    if (control <? n0) || (clength V c <? control) then Ok None
    else
      let lower := nmin a b in let upper := nmax a b in
      if (lower <? control) && (control <? upper) then between_lengths c lower upper
      else if (control <? lower) || ((upper <? control) && cclosed V c) then between_lengths c upper lower
      else Ok None.

  (* airfoil::helpers::extract_edge_sub_curve, from the two arc lengths where the ends of the spanning ray meet the section: both
     orders are portioned, the first piece shorter than the fraction of the perimeter is kept *)
  Definition short_piece (limit : num) (p : option (curve V)) : option (curve V) :=
    match p with Some q => if clength V q <? limit then Some q else None | None => None end.
  Definition edge_sub (c : curve V) (la lb frac : num) : res (option (curve V)) :=
    match between_lengths c la lb, between_lengths c lb la with
    | Ok p0, Ok p1 =>
        let limit := clength V c * frac in
        match short_piece limit p0 with Some q => Ok (Some q) | None => Ok (short_piece limit p1) end
    | Panic, _ | _, Panic => Panic
    | _, _ => Err
    end.

  Definition trim_front (c : curve V) (l : num) := between_lengths c l (clength V c).
  Definition trim_back (c : curve V) (l : num) := between_lengths c n0 (clength V c - l).

  (* split_open_at_length / split_closed_at_lengths: Err when the closedness is wrong or a piece is missing *)
  Definition pair_of (a b : res (option (curve V))) : res (curve V * curve V) :=
    match a, b with
    | Ok (Some x), Ok (Some y) => Ok (x, y)
    | Panic, _ | _, Panic => Panic
    | _, _ => Err
    end.
  Definition split_open_at_length (c : curve V) (l : num) : res (curve V * curve V) :=
    if cclosed V c then Err else
    match between_lengths c n0 l with
    | Ok (Some a) => pair_of (Ok (Some a)) (between_lengths c l (clength V c))
    | Panic => Panic | _ => Err
    end.
  Definition split_closed_at_lengths (c : curve V) (l0 l1 : num) : res (curve V * curve V) :=
    if negb (cclosed V c) then Err else
    match between_lengths c l0 l1 with
    | Ok (Some a) => pair_of (Ok (Some a)) (between_lengths c l1 l0)
    | Panic => Panic | _ => Err
    end.

  (* reversed: from_points(reversed vertices, tol, false).unwrap() *)
  Definition reversed (c : curve V) : res (curve V) :=
    match from_points V (cavg V c) (rev (cpts V c)) (ctol V c) false with Ok r => Ok r | _ => Panic end.
End Portion.
