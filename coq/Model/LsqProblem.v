(* C07: the two alignment problems (geom2/align2/points_to_curve.rs, geom3/align3/points_to_mesh.rs) as state
   machines: the solver is an arbitrary client issuing set_params / residuals; the problem caches the moved points
   and their closest reference points.  The closest-point query and the parameter-to-transform map are parameters. *)
From Coq Require Import ZArith List Bool Arith.
From EG Require Import Num.Num.
Import ListNotations.

Section Problem.
  Context {N : Num}.
  Variables X P S : Type.              (* parameters, points, reference surface points *)
  Variable tr : X -> P -> P.           (* the transform the parameters stand for (RcParams2/3, C08) *)
  Variable cp : P -> S.                (* closest reference point (C02) *)
  Variable mdist : P -> S -> num.      (* mode-specific distance: signed projection / |projection| / point distance *)
  Variable pts : list P.

  Record state := mkState { st_x : X; st_moved : list P; st_closest : list S }.
  Definition move_points (x : X) : state :=
    let moved := map (tr x) pts in mkState x moved (map cp moved).
  Definition init (x0 : X) : state := move_points x0.
  Definition set_params (_ : state) (x : X) : state := move_points x.
  Definition residuals (s : state) : list num := map (fun pc => mdist (fst pc) (snd pc)) (combine (st_moved s) (st_closest s)).
  (* what points_to_curve / points_to_mesh return on success: the transform of the final parameters and the residuals
     of the final state *)
  Definition finish (s : state) : (P -> P) * list num := (tr (st_x s), residuals s).
  Definition run (x0 : X) (history : list X) : state := fold_left set_params history (init x0).
End Problem.
