(* C16: signed deviations, directed distances (metrology/line_profiles.rs,
   geom3/mesh/measurement.rs, metrology/dimension.rs, metrology/surface_deviation.rs) *)
From Coq Require Import ZArith List Bool.
From EG Require Import Num.Num Lib.Vec.
Import ListNotations.

Section Dev.
  Context {N : Num}.
  Local Open Scope num_scope.

  Definition eps6 : num := nlit 1 (-6).

  (* line_profiles.rs point_curve2_deviation: station point sp, station normal n, test point p.
     Returns (normal, deviation). *)
  Definition dev2_normal (sp n p : V2) : V2 :=
    let v := sub2 p sp in
    if norm2 v <? eps6 then n
    else if dot2 v n <? n0 then normalize2 (neg2 v)
    else normalize2 v.
  Definition dev2_value (sp n p : V2) : num :=
    dot2 (sub2 p sp) (dev2_normal sp n p).
  (* SurfaceDeviation::actual_point = surface.at_distance(deviation) = point + normal * d *)
  Definition dev2_actual (sp n p : V2) : V2 :=
    add2 sp (scale2 (dev2_normal sp n p) (dev2_value sp n p)).

  (* measurement.rs Mesh::measure_point_deviation: closest point cp, its face normal n, test point p *)
  Definition dev3_dir (to_plane : bool) (cp n p : V3) : V3 :=
    if to_plane then n else
    let v := sub3 p cp in
    if norm3 v <? eps6 then n
    else if dot3 n v >? n0 then normalize3 v
    else neg3 (normalize3 v).
  (* Distance3::new(cp, p, Some d).value() = d . (b - a) *)
  Definition dist3_value (a b d : V3) : num := dot3 d (sub3 b a).
  Definition dev3_value (to_plane : bool) (cp n p : V3) : num :=
    dist3_value cp p (dev3_dir to_plane cp n p).

  (* dimension.rs Distance<D> *)
  Definition dist2_value (a b d : V2) : num := dot2 d (sub2 b a).
  Definition dist2_default_dir (a b : V2) : V2 := normalize2 (sub2 b a).
  Definition dist3_default_dir (a b : V3) : V3 := normalize3 (sub3 b a).
  (* reversed: (b, a, -d) *)
  Definition dist2_reversed_value (a b d : V2) : num := dist2_value b a (neg2 d).
  Definition dist3_reversed_value (a b d : V3) : num := dist3_value b a (neg3 d).
  (* mid_point: a + (b - a) * 0.5  (common/points.rs) *)
End Dev.
