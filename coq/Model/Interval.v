(* C18: common/interval.rs *)
From Coq Require Import ZArith Bool List.
From EG Require Import Num.Num Model.Types.

Section Interval.
  Context {N : Num}.
  Local Open Scope num_scope.

  (* assert!(!min.is_nan()); assert!(!max.is_nan()) *)
  Definition Interval_new__asserts (min max : num) : bool := negb (nisnan min) && negb (nisnan max).
  Definition Interval_new (min max : num) : Interval := mk_Interval (nmin min max) (nmax min max).
  Definition Interval_try_new (min max : num) : res Interval :=
    if nisnan min || nisnan max then Err else Ok (mk_Interval (nmin min max) (nmax min max)).
  Definition Interval_new_unchecked (min max : num) : Interval := mk_Interval min max.
  Definition Interval_length (i : Interval) : num := Interval_max i - Interval_min i.
  Definition Interval_contains (i : Interval) (x : num) : bool :=
    (Interval_min i <=? x) && (x <=? Interval_max i).
  Definition Interval_contains_interval (i o : Interval) : bool :=
    Interval_contains i (Interval_min o) && Interval_contains i (Interval_max o).
  Definition Interval_overlaps (i o : Interval) : bool :=
    Interval_contains i (Interval_min o) || Interval_contains o (Interval_min i).
  Definition Interval_intersection (i o : Interval) : option Interval :=
    if Interval_overlaps i o
    then Some (Interval_new (nmax (Interval_min i) (Interval_min o)) (nmin (Interval_max i) (Interval_max o)))
    else None.
  Definition Interval_clamp (i : Interval) (x : num) : num :=
    nmax (nmin x (Interval_max i)) (Interval_min i).
End Interval.
