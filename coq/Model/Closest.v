(* C02: closest-point queries as an executable specification: clamped projection on a segment, first minimum over the
   edges of a polyline, plane projection or best edge for a triangle, first minimum over the faces of a mesh; the
   distance cap and the angle filter of project_with_tol. parry's accelerated search is an oracle validated per case. *)
From Coq Require Import ZArith List Bool Arith.
From EG Require Import Num.Num Lib.Vec Model.Types Model.Curve.
Import ListNotations.

Section Closest.
  Context {N : Num} (V : VOps).
  Local Open Scope num_scope.
  Notation P := (pt V).

  (* closest point of segment a..b to q: parameter clamped to [0,1] (a itself when the segment is degenerate) *)
  Definition seg_param (q a b : P) : num :=
    let d := vsub V b a in
    let dd := vdot V d d in
    if dd <=? n0 then n0 else nmin (nmax (vdot V (vsub V q a) d / dd) n0) n1.
  Definition seg_closest (q a b : P) : P := vadd V a (vscale V (vsub V b a) (seg_param q a b)).

  (* best (squared distance, edge index, fraction, point) over the edges; strict improvement keeps the first minimum *)
  Definition dsq (a b : P) : num := vdot V (vsub V a b) (vsub V a b).
  Fixpoint poly_scan (q : P) (pts : list P) (i : nat) (best : option (num * nat * num * P)) : option (num * nat * num * P) :=
    match pts with
    | a :: ((b :: _) as rest) =>
        let t := seg_param q a b in
        let c := vadd V a (vscale V (vsub V b a) t) in
        let d := dsq q c in
        let best' := match best with
                     | Some (bd, _, _, _) => if d <? bd then Some (d, i, t, c) else best
                     | None => Some (d, i, t, c)
                     end in
        poly_scan q rest (S i) best'
    | _ => best
    end.
  Definition poly_closest (q : P) (pts : list P) : option (num * nat * num * P) := poly_scan q pts 0 None.
End Closest.

Section Tri.
  Context {N : Num}.
  Local Open Scope num_scope.
  Definition VO3' := @VO3 N.

  (* closest point of triangle abc to q: the plane projection when it falls inside (all three edge tests non-negative),
     otherwise the best of the three edges *)
  Definition tri_closest (q a b c : V3) : V3 :=
    let n := cross3 (sub3 b a) (sub3 c a) in
    let nn := dot3 n n in
    let e1 := seg_closest VO3' q a b in let e2 := seg_closest VO3' q b c in let e3 := seg_closest VO3' q c a in
    let best12 := if dsq VO3' q e2 <? dsq VO3' q e1 then e2 else e1 in
    let bestE := if dsq VO3' q e3 <? dsq VO3' q best12 then e3 else best12 in
    if nn <=? n0 then bestE
    else
      let p := sub3 q (scale3 n (dot3 (sub3 q a) n / nn)) in
      let inside := (n0 <=? dot3 (cross3 (sub3 b a) (sub3 p a)) n) && (n0 <=? dot3 (cross3 (sub3 c b) (sub3 p b)) n) &&
                    (n0 <=? dot3 (cross3 (sub3 a c) (sub3 p c)) n) in
      if inside then p else bestE.

  Fixpoint mesh_scan (q : V3) (verts : list V3) (faces : list (nat * nat * nat)) (i : nat) (best : option (num * nat * V3))
    : option (num * nat * V3) :=
    match faces with
    | [] => best
    | (fa, fb, fc) :: rest =>
        let z := mk3 n0 n0 n0 in
        let c := tri_closest q (nth fa verts z) (nth fb verts z) (nth fc verts z) in
        let d := dsq VO3' q c in
        let best' := match best with
                     | Some (bd, _, _) => if d <? bd then Some (d, i, c) else best
                     | None => Some (d, i, c)
                     end in
        mesh_scan q verts rest (S i) best'
    end.
  Definition mesh_closest (q : V3) (verts : list V3) (faces : list (nat * nat * nat)) := mesh_scan q verts faces 0 None.

  (* project_with_max_dist: a result exactly when the distance is within the cap *)
  Definition within_cap (d2 cap : num) : bool := nsqrt d2 <=? cap.
End Tri.
