(* C05: resampling, simplification (Ramer-Douglas-Peucker) and gap filling
   (geom2/curve2.rs, geom3/curve3.rs, common/points.rs), generic over the vector operations. *)
From Coq Require Import ZArith List Bool Arith.
From EG Require Import Num.Num Lib.Vec Model.Curve.
Import ListNotations.

Section Resample.
  Context {N : Num} (V : VOps).
  Local Open Scope num_scope.
  Notation P := (pt V).

  (* positions: i / (n - 1) * L *)
  Definition positions_by_count (L : num) (n : nat) : list num :=
    map (fun i => nofnat i / nofnat (n - 1) * L) (seq 0 n).

  (* while length < L { push(length); length += spacing }, then centre *)
  Fixpoint spacing_loop (fuel : nat) (L spacing len : num) : option (list num) :=
    match fuel with
    | O => None
    | S fuel' => if len <? L then option_map (cons len) (spacing_loop fuel' L spacing (len + spacing)) else Some []
    end.
  Definition positions_by_spacing (fuel : nat) (L spacing : num) : res (list num) :=
    match spacing_loop fuel L spacing n0 with
    | None => Panic                      (* does not terminate within the fuel (spacing <= 0) *)
    | Some [] => Panic                   (* positions.last().unwrap() *)
    | Some ps => let padding := (L - last ps n0) / n2 in Ok (map (fun p => p + padding) ps)
    end.

  (* resample_at_positions: at_length(p).unwrap().point, then from_points with the curve's tol/closedness *)
  Fixpoint points_at (c : curve V) (ps : list num) : res (list P) :=
    match ps with
    | [] => Ok []
    | p :: ps' =>
        match at_length V c p with
        | None => Panic
        | Some s => match points_at c ps' with Ok r => Ok (st_point V s :: r) | e => e end
        end
    end.
  Definition resample_at_positions (c : curve V) (ps : list num) : res (curve V) :=
    match points_at c ps with
    | Ok pts => from_points V (cavg V c) pts (ctol V c) (cclosed V c)
    | Err => Err | Panic => Panic
    end.

  (* ---- Ramer-Douglas-Peucker with the distance to the chord segment ---- *)
  Definition seg_dist (p0 p1 p : P) : num :=
    let chord := vsub V p1 p0 in
    let csq := vdot V chord chord in
    let t := if n0 <? csq then nmin (nmax (vdot V (vsub V p p0) chord / csq) n0) n1 else n0 in
    vnorm V (vsub V (vadd V p0 (vscale V chord t)) p).
  (* f64::clamp(0,1) = max(0).min(1) for non-NaN *)

  (* farthest interior vertex of (i0, i1): first index attaining the strict maximum, as `dist > max_dist` *)
  Fixpoint farthest (pts : list P) (p0 p1 : P) (i : nat) (count : nat) (best : num * nat) : num * nat :=
    match count with
    | O => best
    | S k =>
        let d := seg_dist p0 p1 (nth i pts (vzero V)) in
        farthest pts p0 p1 (S i) k (if fst best <? d then (d, i) else best)
    end.

  Fixpoint set_true (l : list bool) (i : nat) : list bool :=
    match l, i with
    | [], _ => []
    | _ :: l', O => true :: l'
    | b :: l', S i' => b :: set_true l' i'
    end.

  Fixpoint rdp (fuel : nat) (pts : list P) (tol : num) (keep : list bool) (i0 i1 : nat) : list bool :=
    match fuel with
    | O => keep
    | S fuel' =>
        let keep := set_true (set_true keep i0) i1 in
        if (i1 - i0 <? 2)%nat then keep
        else
          let '(dmax, imax) := farthest pts (nth i0 pts (vzero V)) (nth i1 pts (vzero V)) (S i0) (i1 - i0 - 1) (n0, 0%nat) in
          if tol <? dmax then rdp fuel' pts tol (rdp fuel' pts tol keep i0 imax) imax i1 else keep
    end.

  Definition rdp_points (pts : list P) (tol : num) : list P :=
    let keep := rdp (length pts) pts tol (map (fun _ => false) pts) 0 (length pts - 1) in
    map fst (filter snd (combine pts keep)).

  (* Curve2::simplify / Curve3::simplify: RDP over the vertices, rebuilt with the curve's own tolerance *)
  Definition simplify (c : curve V) (tol : num) : res (curve V) :=
    let pts := rdp_points (cpts V c) tol in
    match from_points V (cavg V c) pts (ctol V c) (cclosed V c) with
    | Ok r => Ok r | _ => Panic end.

  (* ---- gap filling ---- *)
  Definition evenly_spaced_between (a b : P) (n : nat) : list P :=
    let step := vdiv V (vsub V b a) (nofnat (n + 1)) in
    map (fun i => vadd V a (vscale V step (nofnat i))) (seq 1 n).

  (* smallest n >= 1 with d / (n + 1) <= max_dist *)
  Fixpoint gap_count (fuel : nat) (d maxd : num) (n : nat) : option nat :=
    match fuel with
    | O => None
    | S fuel' => if maxd <? d / nofnat (n + 1) then gap_count fuel' d maxd (S n) else Some n
    end.

  Fixpoint fill_gaps_from (fuel : nat) (maxd : num) (prev : P) (l : list P) : res (list P) :=
    match l with
    | [] => Ok []
    | p :: l' =>
        let d := vdist V p prev in
        let ins := if maxd <? d then
                     match gap_count fuel d maxd 1 with Some n => Ok (evenly_spaced_between prev p n) | None => Panic end
                   else Ok [] in
        match ins, fill_gaps_from fuel maxd p l' with
        | Ok a, Ok r => Ok (a ++ p :: r)
        | _, _ => Panic
        end
    end.
  Definition fill_gaps (fuel : nat) (pts : list P) (maxd : num) : res (list P) :=
    match pts with
    | [] => Ok []
    | [p] => Ok [p]
    | p :: l => match fill_gaps_from fuel maxd p l with Ok r => Ok (p :: r) | e => e end
    end.
End Resample.
