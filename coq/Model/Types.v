(* Struct and enum types shared by the hand-written model and the translator output (Gen/). *)
From Coq Require Import ZArith List String.
Local Open Scope string_scope.
From EG Require Import Num.Num.

Inductive AngleDir := AngleDir_Cw | AngleDir_Ccw.

Section Types.
  Context {N : Num}.
  Record Interval := mk_Interval { Interval_min : num; Interval_max : num }.
  Record AngleInterval := mk_AngleInterval { AngleInterval_start : num; AngleInterval_angle : num }.
  Record Tolerance := mk_Tolerance { Tolerance_lower : num; Tolerance_upper : num }.
  (* geom3/plane3.rs (translator output only; the hand-written model's record is Model.Frames.plane) *)
  Record Plane3 := mk_Plane3 { Plane3_normal : (num * num * num)%type; Plane3_d : num }.
  (* geom2/circle2.rs (translator output only; the model's records are Model.Circle.circ / arc); the cached bounding box is not modelled *)
  (* common/surface_point.rs in 2D, and what line_profiles.rs uses of a CurveStation2: its point and its surface normal *)
  Record SurfacePoint2 := mk_SurfacePoint2 { SurfacePoint2_point : (num * num)%type; SurfacePoint2_normal : (num * num)%type }.
  Record CurveStation2 := mk_CurveStation2 { CurveStation2_pt : (num * num)%type; CurveStation2_nrm : (num * num)%type }.
  (* parry's Ray in 2D (origin, direction) *)
  Record Ray := mk_Ray { Ray_origin : (num * num)%type; Ray_dir : (num * num)%type }.
  Record SurfacePoint3 := mk_SurfacePoint3 { SurfacePoint3_point : (num * num * num)%type; SurfacePoint3_normal : (num * num * num)%type }.
  Record Segment2 := mk_Segment2 { Segment2_a : (num * num)%type; Segment2_b : (num * num)%type }.
  Record Ball := mk_Ball { Ball_radius : num }.
  Record Circle2 := mk_Circle2 { Circle2_center : (num * num)%type; Circle2_ball : Ball; Circle2_aabb : unit }.
  Record Arc2 := mk_Arc2 { Arc2_circle : Circle2; Arc2_angle0 : num; Arc2_angle : num; Arc2_aabb : unit }.
End Types.
(* field lists, compared with the ones the translator reads from the Rust source *)
Definition fields_Circle2 := ("center" :: "ball" :: "aabb" :: nil)%list.
Definition fields_Arc2 := ("circle" :: "angle0" :: "angle" :: "aabb" :: nil)%list.
Definition fields_Segment2 := ("a" :: "b" :: nil)%list.
Definition fields_Plane3 := ("normal" :: "d" :: nil)%list.
Definition fields_Interval := ("min" :: "max" :: nil)%list.
Definition fields_AngleInterval := ("start" :: "angle" :: nil)%list.
Definition fields_AngleDir := ("Cw" :: "Ccw" :: nil)%list.
