(* Struct and enum types shared by the hand-written model and the translator output (Gen/). *)
From Coq Require Import ZArith List String.
Local Open Scope string_scope.
From EG Require Import Num.Num.

Inductive AngleDir := AngleDir_Cw | AngleDir_Ccw.

Section Types.
  Context {N : Num}.
  Record Interval := mk_Interval { Interval_min : num; Interval_max : num }.
  Record AngleInterval := mk_AngleInterval { AngleInterval_start : num; AngleInterval_angle : num }.
  Record Tolerance := mk_Tolerance { Tolerance_lower : num; Tolerance_upper : num }.
  (* geom3/plane3.rs (translator output only; the hand-written model's record is Model.Frames.plane) *)
  Record Plane3 := mk_Plane3 { Plane3_normal : (num * num * num)%type; Plane3_d : num }.
End Types.
(* field lists, compared with the ones the translator reads from the Rust source *)
Definition fields_Plane3 := ("normal" :: "d" :: nil)%list.
Definition fields_Interval := ("min" :: "max" :: nil)%list.
Definition fields_AngleInterval := ("start" :: "angle" :: nil)%list.
Definition fields_AngleDir := ("Cw" :: "Ccw" :: nil)%list.
