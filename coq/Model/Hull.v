(* C15: engeom's own logic on top of parry's convex hull (geom2/hull.rs): the farthest pair of hull vertices (double loop,
   strict improvement) and the order-direction vote over consecutive hull indices. *)
From Coq Require Import ZArith List Bool Arith.
From EG Require Import Num.Num Lib.Vec Model.Types.
Import ListNotations.

Section Hull.
  Context {N : Num}.
  Local Open Scope num_scope.

  (* farthest_pair_indices: for i, for j > i: if dist(i, j) > max then (max, pair) := (dist, (i, j)) *)
  Fixpoint far_inner (pi : V2) (i j : nat) (rest : list V2) (best : num * (nat * nat)) : num * (nat * nat) :=
    match rest with
    | [] => best
    | pj :: rest' =>
        let d := dist2 pi pj in
        far_inner pi i (S j) rest' (if fst best <? d then (d, (i, j)) else best)
    end.
  Fixpoint far_outer (i : nat) (l : list V2) (best : num * (nat * nat)) : num * (nat * nat) :=
    match l with
    | [] => best
    | pi :: rest => far_outer (S i) rest (far_inner pi i (S i) rest best)
    end.
  Definition farthest_pair (pts : list V2) : nat * nat := snd (far_outer 0 pts (n0, (0%nat, 0%nat))).

  (* point_order_direction: sum of signum(hull[(i+1) % h] - hull[i]); counter-clockwise iff positive *)
  Definition sgn (a b : nat) : Z := if (a <? b)%nat then 1%Z else if (b <? a)%nat then (-1)%Z else 0%Z.
  Fixpoint chain_sum (prev : nat) (l : list nat) : Z :=
    match l with [] => 0%Z | x :: l' => (sgn prev x + chain_sum x l')%Z end.
  Definition order_sum (hull : list nat) : Z :=
    match hull with [] => 0%Z | h :: l => (chain_sum h l + sgn (last l h) h)%Z end.
  Definition order_ccw (hull : list nat) : bool := (0 <? order_sum hull)%Z.
End Hull.
