(* C11: circle / arc / tangent constructions (geom2/circle2.rs, geom2/aabb2.rs, geom2/line2.rs). *)
From Coq Require Import ZArith List Bool Arith.
From EG Require Import Num.Num Lib.Vec Model.Types Model.Angles.
Import ListNotations.

Section Circle.
  Context {N : Num}.
  Local Open Scope num_scope.

  Record circ := mkCirc { cc : V2; cr : num }.
  Definition TOL10 : num := nlit 1 (-10).

  (* Iso2::rotation(t) * v  (unit complex multiplication) *)
  Definition rot2 (t : num) (v : V2) : V2 := (ncos t * fst v - nsin t * snd v, nsin t * fst v + ncos t * snd v).
  (* the exact quarter turns used where the code rotates by +-pi/2 *)
  Definition perp_ccw (v : V2) : V2 := (- snd v, fst v).
  Definition perp_cw (v : V2) : V2 := (snd v, - fst v).

  Definition point_at_angle (c : circ) (t : num) : V2 := add2 (cc c) (rot2 t (cr c, n0)).
  Definition angle_of_point (c : circ) (p : V2) : num := let v := sub2 p (cc c) in natan2 (snd v) (fst v).
  Definition project_to_perimeter (c : circ) (p : V2) : option V2 :=
    let v := sub2 p (cc c) in
    if norm2 v <? TOL10 then None else Some (add2 (cc c) (scale2 (normalize2 v) (cr c))).
  Definition circ_distance (c : circ) (p : V2) : num := dist2 (cc c) p - cr c.

  (* Circle2::intersections_with (with the nested / internal-tangency guards) *)
  Definition intersections_with (c0 c1 : circ) : list V2 :=
    let d := dist2 (cc c0) (cc c1) in
    if d <? TOL10 then [] else
    let r_sum := cr c0 + cr c1 in
    if r_sum <? d then [] else
    let r_diff := nabs (cr c0 - cr c1) in
    if d <=? r_diff - TOL10 then [] else
    let v := normalize2 (sub2 (cc c1) (cc c0)) in
    let a := (cr c0 * cr c0 - cr c1 * cr c1 + d * d) / (n2 * d) in
    let p2 := add2 (cc c0) (scale2 v a) in
    if (nabs (d - r_sum) <? TOL10) || (nabs (d - r_diff) <? TOL10) then [p2] else
    let h := nsqrt (cr c0 * cr c0 - a * a) in
    let n := perp_ccw v in
    [add2 p2 (scale2 n h); sub2 p2 (scale2 n h)].

  (* Circle2::tangent_points_to *)
  (* Circle2::intersection_interval: the stretch of this circle inside the other one.  Of the two intervals that start at the first
     crossing point and end at the second (the signed angle between them, or its complement), the one containing the direction of
     the other centre *)
  Definition pick_interval (s a theta : num) : AngleInterval :=
    let i0 := AngleInterval_new s a in
    if AngleInterval_contains i0 theta then i0 else AngleInterval_new s (signed_compliment_2pi a).
  Definition intersection_interval (c0 c1 : circ) : option AngleInterval :=
    match intersections_with c0 c1 with
    | [] => None
    | [p] => Some (AngleInterval_new (angle_of_point c0 p) n0)
    | p :: q :: _ =>
        Some (pick_interval (angle_of_point c0 p) (signed_angle (sub2 p (cc c0)) (sub2 q (cc c0))) (angle_of_point c0 (cc c1)))
    end.

  Definition tangent_points_to (c : circ) (p : V2) : option (V2 * V2) :=
    let d := dist2 (cc c) p in
    if d <=? cr c then None else
    let angle := nacos (cr c / d) in
    let theta := natan2 (snd p - snd (cc c)) (fst p - fst (cc c)) in
    Some ((fst (cc c) + cr c * ncos (theta - angle), snd (cc c) + cr c * nsin (theta - angle)),
          (fst (cc c) + cr c * ncos (theta + angle), snd (cc c) + cr c * nsin (theta + angle))).

  (* segments / lines: origin + direction; Segment2 (a, b) has dir b - a *)
  Definition seg : Type := V2 * V2.
  Definition seg_dir (s : seg) : V2 := sub2 (snd s) (fst s).
  Definition seg_at (s : seg) (t : num) : V2 := add2 (fst s) (scale2 (seg_dir s) t).
  Definition seg_offsetted (s : seg) (d : num) : seg :=
    let n := normalize2 (perp_cw (seg_dir s)) in
    (add2 (fst s) (scale2 n d), add2 (snd s) (scale2 n d)).
  Definition seg_reversed (s : seg) : seg := (snd s, fst s).
  Definition seg_try_new (a b : V2) : option seg := if dist2 a b <? nlit 1 (-12) then None else Some (a, b).

  Definition line_projected_parameter (o d p : V2) : num := dot2 d (sub2 p o) / dot2 d d.

  (* intersection_line_circle: parameters along (origin o, direction dv) *)
  Definition intersection_line_circle (o dv : V2) (c : circ) : list num :=
    let tc := line_projected_parameter o dv (cc c) in
    let proj := add2 o (scale2 dv tc) in
    let d := dist2 (cc c) proj in
    if nabs (d - cr c) <? TOL10 then [tc]
    else if cr c <? d then []
    else
      let h := nsqrt (cr c * cr c - d * d) in
      let th := h / norm2 dv in
      [tc - th; tc + th].

  Definition circle_segment_intersection (c : circ) (s : seg) : list V2 :=
    map (seg_at s)
        (filter (fun t => (- TOL10 <=? t) && (t <=? n1 + TOL10)) (intersection_line_circle (fst s) (seg_dir s) c)).

  (* outer_tangents_to; fuel 2 covers the single swap *)
  Fixpoint outer_tangents_to (fuel : nat) (c0 c1 : circ) : option (seg * seg) :=
    match fuel with
    | O => None
    | S fuel' =>
      if dist2 (cc c0) (cc c1) <? TOL10 then None
      else if nabs (cr c0 - cr c1) <? TOL10 then
        match seg_try_new (cc c0) (cc c1) with
        | Some s => Some (seg_offsetted s (cr c0), seg_offsetted s (- cr c0))
        | None => None
        end
      else if cr c1 <? cr c0 then
        match outer_tangents_to fuel' c1 c0 with
        | Some (s0, s1) => Some (seg_reversed s1, seg_reversed s0)
        | None => None
        end
      else
        let proxy := mkCirc (cc c1) (cr c1 - cr c0) in
        match tangent_points_to proxy (cc c0) with
        | Some (p0, p1) =>
            match seg_try_new (cc c0) p0, seg_try_new (cc c0) p1 with
            | Some s0, Some s1 => Some (seg_offsetted s0 (- cr c0), seg_offsetted s1 (cr c0))
            | _, _ => None
            end
        | None => None
        end
    end.

  (* ---- arcs: (circle, angle0, angle) ---- *)
  Record arc := mkArc { acirc : circ; a0 : num; asweep : num }.
  Definition arc_point_at_angle (a : arc) (t : num) : V2 := point_at_angle (acirc a) (a0 a + t).
  Definition arc_point_at_fraction (a : arc) (f : num) : V2 := arc_point_at_angle a (asweep a * f).
  Definition arc_length (a : arc) : num := cr (acirc a) * nabs (asweep a).
  Definition arc_point_at_length (a : arc) (l : num) : V2 := arc_point_at_fraction a (l / arc_length a).
  Definition arc_start (a : arc) : V2 := arc_point_at_angle a n0.
  Definition arc_end (a : arc) : V2 := arc_point_at_angle a (asweep a).

  (* Arc2::three_points given the circle through the points (Circle2::from_3_points is C09's circle3) *)
  Definition arc_three_points (c : circ) (p0 p1 p2 : V2) : arc :=
    let angle0 := angle_of_point c p0 in
    let v0 := sub2 p0 (cc c) in
    let v2 := sub2 p2 (cc c) in
    let det := (fst p1 - fst p0) * (snd p1 + snd p0) + (fst p2 - fst p1) * (snd p2 + snd p1)
               + (fst p0 - fst p2) * (snd p0 + snd p2) in
    let angle := if det <? n0 then directed_angle v0 v2 AngleDir_Ccw else - directed_angle v0 v2 AngleDir_Cw in
    mkArc c angle0 angle.

  (* ---- bounding boxes: (mins, maxs) ---- *)
  Definition bbox_of (pts : list V2) : V2 * V2 :=
    match pts with
    | [] => ((n0, n0), (n0, n0))
    | p :: l => fold_left (fun bb q => ((nmin (fst (fst bb)) (fst q), nmin (snd (fst bb)) (snd q)),
                                        (nmax (fst (snd bb)) (fst q), nmax (snd (snd bb)) (snd q)))) l (p, p)
    end.
  Definition circle_aabb (c : circ) : V2 * V2 :=
    ((fst (cc c) - cr c, snd (cc c) - cr c), (fst (cc c) + cr c, snd (cc c) + cr c)).
  Definition arc_aabb_angles (angle0 angle : num) : list num :=
    let check := AngleInterval_new angle0 angle in
    [angle0; angle0 + angle] ++
    filter (fun t => AngleInterval_contains check t) (map (fun i => nofnat i * (npi / n2)) (seq 0 4)).
  Definition arc_aabb (c : circ) (angle0 angle : num) : V2 * V2 :=
    bbox_of (map (point_at_angle c) (arc_aabb_angles angle0 angle)).
End Circle.
