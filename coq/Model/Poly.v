(* C09: polynomial least squares (func1/polynomial.rs), Series1::best_fit_line (func1/series1.rs),
   three-point circle, circle-fit residuals / weights / Jacobian and RANSAC bookkeeping (geom2/circle2.rs). *)
From Coq Require Import ZArith List Bool Arith.
From EG Require Import Num.Num Lib.Vec.
Import ListNotations.

Section Poly.
  Context {N : Num}.
  Local Open Scope num_scope.

  Fixpoint npow (x : num) (k : nat) : num := match k with O => n1 | S k' => x * npow x k' end.

  (* a sample: abscissa, ordinate, weight (1.0 when no weights are given) *)
  Definition sample : Type := num * num * num.
  Definition sx (s : sample) := fst (fst s).
  Definition sy (s : sample) := snd (fst s).
  Definition sw (s : sample) := snd s.

  (* sums[j] = sum_i w_i x_i^j for j in 0..=2K, accumulated sample by sample from 0.0 *)
  Definition power_sum (S : list sample) (j : nat) : num :=
    fold_left (fun acc s => acc + sw s * npow (sx s) j) S n0.
  Definition sums_of (K : nat) (S : list sample) : list num := map (power_sum S) (seq 0 (2 * K + 1)).
  (* rhs[k] += (w * x^k) * y *)
  Definition rhs_entry (S : list sample) (k : nat) : num :=
    fold_left (fun acc s => acc + (sw s * npow (sx s) k) * sy s) S n0.
  Definition rhs_of (K : nat) (S : list sample) : list num := map (rhs_entry S) (seq 0 K).

  (* matrix[(r, c)] = sums[r + c] *)
  Definition hankel (K : nat) (sums : list num) : list (list num) :=
    map (fun r => map (fun c => nth (r + c) sums n0) (seq 0 K)) (seq 0 K).

  Definition dotl (a b : list num) : num := fold_left (fun acc p => acc + fst p * snd p) (combine a b) n0.
  Definition mat_vec (M : list (list num)) (v : list num) : list num := map (fun row => dotl row v) M.

  (* Polynomial::f : y += c[i] * x^i *)
  Definition poly_eval (c : list num) (x : num) : num :=
    fold_left (fun acc p => acc + snd p * npow x (fst p)) (combine (seq 0 (length c)) c) n0.

  (* Series1::best_fit_line (closed form) *)
  Definition sum_list (l : list num) : num := fold_left nadd l n0.
  Definition best_fit_line (xs ys : list num) : num * num :=   (* (m, b) *)
    let n := nofnat (length xs) in
    let sum_x := sum_list xs in
    let sum_y := sum_list ys in
    let sum_xx := sum_list (map (fun x => x * x) xs) in
    let sum_xy := sum_list (map (fun p => fst p * snd p) (combine xs ys)) in
    let m := (n * sum_xy - sum_x * sum_y) / (n * sum_xx - sum_x * sum_x) in
    let b := (sum_y - m * sum_x) / n in
    (m, b).

  (* Line1::try_from_points: the line (m, b) through two samples, refused when the abscissae are within 1e-12 *)
  Definition line_two_points (x0 y0 x1 y1 : num) : res (num * num) :=
    if nabs (x1 - x0) <? nlit 1 (-12) then Err
    else let m := (y1 - y0) / (x1 - x0) in Ok (m, y0 - m * x0).

  (* Circle2::from_3_points *)
  Definition circle3 (p0 p1 p2 : V2) : res (num * num * num) :=
    let temp := fst p1 * fst p1 + snd p1 * snd p1 in
    let bc := (fst p0 * fst p0 + snd p0 * snd p0 - temp) / n2 in
    let cd := (temp - fst p2 * fst p2 - snd p2 * snd p2) / n2 in
    let det := (fst p0 - fst p1) * (snd p1 - snd p2) - (fst p1 - fst p2) * (snd p0 - snd p1) in
    if nabs det <? nlit 1 (-6) then Err
    else
      let cx := (bc * (snd p1 - snd p2) - cd * (snd p0 - snd p1)) / det in
      let cy := ((fst p0 - fst p1) * cd - (fst p1 - fst p2) * bc) / det in
      let radius := nsqrt ((cx - fst p0) * (cx - fst p0) + (cy - snd p0) * (cy - snd p0)) in
      Ok (cx, cy, radius).

  (* circle fit: circle = (cx, cy, r) *)
  Definition circle : Type := num * num * num.
  Definition ccx (c : circle) := fst (fst c).
  Definition ccy (c : circle) := snd (fst c).
  Definition ccr (c : circle) := snd c.
  (* Circle2::distance_to: dist(center, p) - r *)
  Definition circle_dist (c : circle) (p : V2) : num := dist2 (ccx c, ccy c) p - ccr c.

  Definition mean (l : list num) : num := sum_list l / nofnat (length l).
  Definition variance (l : list num) : num :=
    let m := mean l in fold_left (fun acc v => acc + (v - m) * (v - m)) l n0 / nofnat (length l).

  (* compute_weights_mut: None = BestFit::All, Some sigma = BestFit::Gaussian(sigma) *)
  Definition fit_weights (res : list num) (sigma : option num) : list num :=
    match sigma with
    | None => map (fun _ => n1) res
    | Some sg =>
        let m := mean res in
        let sd := nsqrt (variance res) in
        map (fun r => if sg <? nabs (r - m) / sd then n0 else n1) res
    end.

  (* state of the LM problem after set_params(c): base residuals and weights *)
  Definition fit_state (pts : list V2) (sigma : option num) (c : circle) : list num * list num :=
    let res := map (circle_dist c) pts in (res, fit_weights res sigma).
  Definition fit_residuals (pts : list V2) (sigma : option num) (c : circle) : list num :=
    let '(res, w) := fit_state pts sigma c in map (fun p => fst p * snd p) (combine res w).
  Definition fit_jacobian (pts : list V2) (sigma : option num) (c : circle) : list (num * num * num) :=
    let '(_, w) := fit_state pts sigma c in
    map (fun pw => let '(p, wi) := pw in
                   let n := normalize2 (sub2 p (ccx c, ccy c)) in
                   (- fst n * wi, - snd n * wi, - n1 * wi)) (combine pts w).

  (* RANSAC bookkeeping: candidates in the order examined (None = collinear triple or radius out of range) *)
  Definition inliers (pts : list V2) (tol : num) (c : circle) : nat :=
    length (filter (fun p => nabs (circle_dist c p) <? tol) pts).
  Definition ransac_pick (pts : list V2) (tol : num) (cands : list (option circle)) : option circle * nat :=
    fold_left (fun best cand =>
                 match cand with
                 | None => best
                 | Some c => let k := inliers pts tol c in if (snd best <? k)%nat then (Some c, k) else best
                 end) cands (None, 0%nat).
End Poly.
