(* C16: SurfaceDeviationSet bookkeeping (metrology/surface_deviation.rs).
   Only comparisons are used, so the core is parametric in the carrier and its order;
   it is instantiated at R for the theorems and at binary64 for execution, and
   Proofs/DevSetFloat.v shows the two agree on every finite binary64 input. *)
From Coq Require Import ZArith List Bool.
From EG Require Import Num.Num.
Import ListNotations.

Section Core.
  Context {A : Type} (ltb : A -> A -> bool) (isnan : A -> bool).

  Inductive ord := OLt | OEq | OGt.
  (* a.partial_cmp(b).unwrap() *)
  Definition pcmp (a b : A) : option ord :=
    if isnan a || isnan b then None
    else if ltb a b then Some OLt else if ltb b a then Some OGt else Some OEq.

  (* Iterator::max_by keeps the LAST maximal element; min_by keeps the FIRST minimal one *)
  Fixpoint max_by_aux (acc : nat * A) (i : nat) (l : list A) : res (nat * A) :=
    match l with
    | [] => Ok acc
    | x :: l' =>
        match pcmp (snd acc) x with
        | None => Panic
        | Some OGt => max_by_aux acc (S i) l'
        | Some _ => max_by_aux (i, x) (S i) l'
        end
    end.
  Fixpoint min_by_aux (acc : nat * A) (i : nat) (l : list A) : res (nat * A) :=
    match l with
    | [] => Ok acc
    | x :: l' =>
        match pcmp (snd acc) x with
        | None => Panic
        | Some OGt => min_by_aux (i, x) (S i) l'
        | Some _ => min_by_aux acc (S i) l'
        end
    end.
  Definition max_index_of (l : list A) : res (option nat) :=
    match l with [] => Ok None | x :: l' => res_map (fun p => Some (fst p)) (max_by_aux (0, x) 1 l') end.
  Definition min_index_of (l : list A) : res (option nat) :=
    match l with [] => Ok None | x :: l' => res_map (fun p => Some (fst p)) (min_by_aux (0, x) 1 l') end.

  Record sds := mkSds { vals : list A; maxi : option nat; mini : option nat }.

  Definition sds_default : sds := mkSds [] None None.

  Definition sds_new (l : list A) : res sds :=
    res_bind (max_index_of l) (fun mx =>
    res_bind (min_index_of l) (fun mn => Ok (mkSds l mx mn))).

  (* push: values[max_index] is a checked index (panic when out of range) *)
  Definition sds_push (s : sds) (d : A) : res sds :=
    let upd (cur : option nat) (better : A -> bool) : res (option nat) :=
      match cur with
      | None => Ok (Some (length (vals s)))
      | Some i => match nth_error (vals s) i with
                  | None => Panic
                  | Some v => Ok (if better v then Some (length (vals s)) else Some i)
                  end
      end in
    res_bind (upd (maxi s) (fun v => ltb v d)) (fun mx =>
    res_bind (upd (mini s) (fun v => ltb d v)) (fun mn =>
    Ok (mkSds (vals s ++ [d]) mx mn))).

  Definition sds_get (s : sds) (idx : option nat) : res (option A) :=
    match idx with
    | None => Ok None
    | Some i => match nth_error (vals s) i with None => Panic | Some v => Ok (Some v) end
    end.
  Definition sds_max (s : sds) := sds_get s (maxi s).
  Definition sds_min (s : sds) := sds_get s (mini s).

  Fixpoint sds_pushes (s : sds) (ds : list A) : res sds :=
    match ds with
    | [] => Ok s
    | d :: ds' => res_bind (sds_push s d) (fun s' => sds_pushes s' ds')
    end.

  (* a history: construction from a vector, then any number of pushes *)
  Definition sds_run (init ds : list A) : res sds :=
    res_bind (sds_new init) (fun s => sds_pushes s ds).
End Core.

Arguments mkSds {A}.
Arguments vals {A}. Arguments maxi {A}. Arguments mini {A}.

Section Zone.
  Context {N : Num}.
  Local Open Scope num_scope.
  Definition nsds_run := @sds_run num nltb nisnan.
  (* symmetrical_zone_size *)
  Definition sds_zone (s : @sds num) : res num :=
    match vals s with
    | [] => Ok n0
    | _ =>
      match sds_max s, sds_min s with
      | Ok (Some mx), Ok (Some mn) => Ok (nmax (nabs mx) (nabs mn) * n2)
      | _, _ => Panic   (* .unwrap() on None, or index out of range *)
      end
    end.
End Zone.
