(* C12: mesh connectivity (geom3/mesh/edges.rs, geom3/mesh/patches.rs), voxel clustering
   (raster3.rs), index chaining (common/indices.rs), primitive generators (geom3/mesh.rs).
   Discrete: vertices, faces, edges are natural numbers.  HashSet/HashMap iteration order is an
   explicit oracle. *)
From Coq Require Import ZArith List Bool Arith Lia.
Import ListNotations.

Definition edge : Type := nat * nat.
Definition face : Type := nat * nat * nat.

Definition edge_key (e : edge) : edge := (Nat.min (fst e) (snd e), Nat.max (fst e) (snd e)).

(* naive_edges: [f1,f2], [f2,f0], [f0,f1] per face, in face order *)
Definition face_dedges (f : face) : list edge :=
  let '(a, b, c) := f in [(b, c); (c, a); (a, b)].
Definition naive_edges (faces : list face) : list edge := flat_map face_dedges faces.

(* lexicographic order on edge keys, as derived Ord on [u32; 2] *)
Definition edge_ltb (x y : edge) : bool :=
  (fst x <? fst y) || ((fst x =? fst y) && (snd x <? snd y)).
Definition edge_eqb (x y : edge) : bool := (fst x =? fst y) && (snd x =? snd y).

(* unique_edges: count per key (a HashMap), then sort by key.  Modelled as insertion into a
   strictly sorted association list, which is what collecting and sorting distinct keys yields. *)
Fixpoint count_insert (k : edge) (l : list (edge * nat)) : list (edge * nat) :=
  match l with
  | [] => [(k, 1)]
  | (k', c) :: l' =>
      if edge_eqb k k' then (k', S c) :: l'
      else if edge_ltb k k' then (k, 1) :: l
      else (k', c) :: count_insert k l'
  end.
Definition unique_edges (all_edges : list edge) : list (edge * nat) :=
  fold_left (fun acc e => count_insert (edge_key e) acc) all_edges [].

Fixpoint index_of_key (k : edge) (l : list (edge * nat)) (i : nat) : option nat :=
  match l with
  | [] => None
  | (k', _) :: l' => if edge_eqb k k' then Some i else index_of_key k l' (S i)
  end.
Definition count_of_key (k : edge) (l : list (edge * nat)) : nat :=
  match index_of_key k l 0 with
  | Some i => snd (nth i l ((0, 0), 0))
  | None => 0
  end.

(* --- boundary loops: edge-by-edge walk, every edge used once --- *)
Definition other_end (e : edge) (v : nat) : nat := if fst e =? v then snd e else fst e.
Definition touches (e : edge) (v : nat) : bool := (fst e =? v) || (snd e =? v).

(* the candidate chosen by min_by_key (stored direction first, then lowest index) among the unused
   edges at vertex v *)
Fixpoint first_unused (es : list edge) (used : list bool) (v : nat) (want_out : bool) (i : nat) : option nat :=
  match es, used with
  | e :: es', u :: used' =>
      if negb u && touches e v && (if want_out then fst e =? v else negb (fst e =? v))
      then Some i else first_unused es' used' v want_out (S i)
  | _, _ => None
  end.
Definition next_edge (es : list edge) (used : list bool) (v : nat) : option nat :=
  match first_unused es used v true 0 with
  | Some i => Some i
  | None => first_unused es used v false 0
  end.

Fixpoint set_nth {A} (l : list A) (i : nat) (x : A) : list A :=
  match l, i with
  | [], _ => []
  | _ :: l', O => x :: l'
  | a :: l', S i' => a :: set_nth l' i' x
  end.

(* one loop: returns (vertices in walk order, edge indices used in walk order, used flags, closed?) *)
Fixpoint walk (fuel : nat) (es : list edge) (used : list bool) (first current : nat)
         (vs : list nat) (ix : list nat) : option (list nat * list nat * list bool * bool) :=
  match fuel with
  | O => None
  | S fuel' =>
      if current =? first then Some (vs, ix, used, true)
      else
        match next_edge es used current with
        | None => Some (vs ++ [current], ix, used, false)
        | Some i =>
            walk fuel' es (set_nth used i true) first (other_end (nth i es (0, 0)) current)
                 (vs ++ [current]) (ix ++ [i])
        end
  end.

Record loops_state := mkLS { ls_used : list bool; ls_loops : list (list nat);
                             ls_edges : list (list nat); ls_closed : bool }.

Definition loop_step (es : list edge) (st : option loops_state) (start : nat) : option loops_state :=
  match st with
  | None => None
  | Some s =>
      if nth start (ls_used s) true then Some s
      else
        let e := nth start es (0, 0) in
        match walk (S (length es)) es (set_nth (ls_used s) start true) (fst e) (snd e) [fst e] [start] with
        | None => None
        | Some (vs, ix, used', closed) =>
            Some (mkLS used' (ls_loops s ++ [rev vs]) (ls_edges s ++ [ix]) (ls_closed s && closed))
        end
  end.

Definition boundary_loops_full (es : list edge) : option loops_state :=
  fold_left (loop_step es) (seq 0 (length es)) (Some (mkLS (repeat false (length es)) [] [] true)).
Definition boundary_loops (es : list edge) : option (list (list nat)) :=
  option_map ls_loops (boundary_loops_full es).

(* --- identify_edges --- *)
Definition boundary_dedges (faces : list face) (uniq : list (edge * nat)) : list edge :=
  filter (fun e => count_of_key (edge_key e) uniq =? 1) (naive_edges faces).

Definition face_edge_indices (uniq : list (edge * nat)) (f : face) : option (nat * nat * nat) :=
  match map (fun e => index_of_key (edge_key e) uniq 0) (face_dedges f) with
  | [Some i0; Some i1; Some i2] => Some (i0, i1, i2)
  | _ => None
  end.

Inductive ie_result :=
| IE_Err                                            (* Non-manifold edges detected *)
| IE_Panic                                          (* would index out of range / no entry *)
| IE_Ok (edges : list edge) (face_edges : list (nat * nat * nat)) (loops : list (list nat)).

Fixpoint all_some {A} (l : list (option A)) : option (list A) :=
  match l with
  | [] => Some []
  | Some x :: l' => option_map (cons x) (all_some l')
  | None :: _ => None
  end.

Definition identify_edges (faces : list face) : ie_result :=
  let uniq := unique_edges (naive_edges faces) in
  if existsb (fun kc => 2 <? snd kc) uniq then IE_Err
  else
    match all_some (map (face_edge_indices uniq) faces), boundary_loops (boundary_dedges faces uniq) with
    | Some fe, Some loops => IE_Ok (map fst uniq) fe loops
    | _, _ => IE_Panic
    end.

(* --- patches: flood fill across shared undirected edges; pick = HashSet iteration order --- *)
Section Patches.
  Variable pick : list nat -> option nat.

  (* patches.rs edge_key(i, f) = (f[i], f[(i+1)%3]) for i = 0,1,2 *)
  Definition patch_edges (f : face) : list edge := let '(a, b, c) := f in [(a, b); (b, c); (c, a)].
  Definition face_keys (f : face) : list edge := map edge_key (patch_edges f).
  Definition shares_edge (f g : face) : bool :=
    existsb (fun k => existsb (edge_eqb k) (face_keys g)) (face_keys f).

  Definition remove_nat (x : nat) (l : list nat) : list nat := filter (fun y => negb (y =? x)) l.

  (* faces (by index, in table order) on undirected edge k that are still remaining *)
  Definition adjacent_remaining (faces : list face) (remaining : list nat) (k : edge) : list nat :=
    filter (fun i => existsb (Nat.eqb i) remaining &&
                     existsb (edge_eqb k) (face_keys (nth i faces (0, 0, 0))))
           (seq 0 (length faces)).

  (* process the working queue (a stack of edges) *)
  Fixpoint fill (fuel : nat) (faces : list face) (queue : list edge) (remaining patch : list nat)
    : option (list nat * list nat) :=
    match fuel with
    | O => None
    | S fuel' =>
        match queue with
        | [] => Some (remaining, patch)
        | e :: queue' =>
            let adj := adjacent_remaining faces remaining (edge_key e) in
            let remaining' := fold_left (fun r f => remove_nat f r) adj remaining in
            let pushed := flat_map (fun f => patch_edges (nth f faces (0, 0, 0))) adj in
            fill fuel' faces (rev pushed ++ queue') remaining' (patch ++ adj)
        end
    end.

  Fixpoint patches_loop (fuel : nat) (faces : list face) (remaining : list nat) (acc : list (list nat))
    : option (list (list nat)) :=
    match fuel with
    | O => None
    | S fuel' =>
        match remaining with
        | [] => Some acc
        | _ =>
            match pick remaining with
            | None => None
            | Some f =>
                let remaining' := remove_nat f remaining in
                match fill (4 * length faces + 4) faces (rev (patch_edges (nth f faces (0, 0, 0)))) remaining' [f] with
                | None => None
                | Some (remaining'', patch) => patches_loop fuel' faces remaining'' (acc ++ [patch])
                end
            end
        end
    end.

  Definition compute_patch_indices (faces : list face) : option (list (list nat)) :=
    patches_loop (S (length faces)) faces (seq 0 (length faces)) [].
End Patches.

(* --- chained_indices (common/indices.rs) --- *)
Definition chain_candidates (pairs : list nat) (indices : list edge) (last : nat) (forward : bool)
  : option (nat * nat) :=
  let sel := fun e : edge => if forward then fst e else snd e in
  match filter (fun ki => sel (nth (snd ki) indices (0, 0)) =? last) (combine (seq 0 (length pairs)) pairs) with
  | [ki] => Some ki
  | _ => None
  end.

(* Vec::swap_remove *)
Definition swap_remove {A} (l : list A) (k : nat) : list A :=
  match rev l with
  | [] => []
  | lastx :: _ => if k =? length l - 1 then removelast l else removelast (set_nth l k lastx)
  end.

Fixpoint chain_loop (fuel : nat) (indices : list edge) (pairs : list nat) (working : list nat)
         (forward : bool) (chains : list (list nat)) (used : list nat)
  : option (list (list nat) * list nat) :=
  match fuel with
  | O => None
  | S fuel' =>
      match pairs with
      | [] => Some (match working with [] => chains | _ => chains ++ [working] end, used)
      | _ =>
          (* start a new chain with the last pair *)
          let '(pairs1, working1, forward1, used1) :=
            match working with
            | [] => let i := last pairs 0 in
                    (removelast pairs, [fst (nth i indices (0, 0)); snd (nth i indices (0, 0))], true, used ++ [i])
            | _ => (pairs, working, forward, used)
            end in
          if forward1 then
            match chain_candidates pairs1 indices (last working1 0) true with
            | Some (k, i) =>
                chain_loop fuel' indices (swap_remove pairs1 k) (working1 ++ [snd (nth i indices (0, 0))]) true chains (used1 ++ [i])
            | None => chain_loop fuel' indices pairs1 working1 false chains used1
            end
          else
            match chain_candidates pairs1 indices (hd 0 working1) false with
            | Some (k, i) =>
                chain_loop fuel' indices (swap_remove pairs1 k) (fst (nth i indices (0, 0)) :: working1) false chains (used1 ++ [i])
            | None => chain_loop fuel' indices pairs1 [] true (chains ++ [working1]) used1
            end
      end
  end.

Definition chained_indices_full (indices : list edge) : option (list (list nat) * list nat) :=
  chain_loop (3 * length indices + 3) indices (seq 0 (length indices)) [] true [] [].
Definition chained_indices (indices : list edge) : option (list (list nat)) :=
  option_map fst (chained_indices_full indices).

(* --- voxel clustering (raster3.rs): 26-neighbour flood fill --- *)
Definition voxel : Type := Z * Z * Z.
Definition voxel_eqb (a b : voxel) : bool :=
  let '(ax, ay, az) := a in let '(bx, by_, bz) := b in (ax =? bx)%Z && (ay =? by_)%Z && (az =? bz)%Z.
Definition offsets26 : list voxel :=
  filter (fun v => negb (voxel_eqb v (0, 0, 0)%Z))
    (flat_map (fun x => flat_map (fun y => map (fun z => (x, y, z)) [-1; 0; 1]%Z) [-1; 0; 1]%Z) [-1; 0; 1]%Z).
Definition vadd (a b : voxel) : voxel :=
  let '(ax, ay, az) := a in let '(bx, by_, bz) := b in (ax + bx, ay + by_, az + bz)%Z.
Definition vmem (v : voxel) (s : list voxel) : bool := existsb (voxel_eqb v) s.
Definition vremove (v : voxel) (s : list voxel) : list voxel := filter (fun w => negb (voxel_eqb w v)) s.

Section Clusters.
  Variable vpick : list voxel -> option voxel.

  (* visit the 26 neighbours in loop order; each one present is removed from the set and pushed *)
  Definition visit_neighbours (current : voxel) (indices to_visit : list voxel) : list voxel * list voxel :=
    fold_left (fun '(ind, tv) off =>
                 let n := vadd current off in
                 if vmem n ind then (vremove n ind, n :: tv) else (ind, tv))
              offsets26 (indices, to_visit).

  Fixpoint cluster_fill (fuel : nat) (indices to_visit working : list voxel) : option (list voxel * list voxel) :=
    match fuel with
    | O => None
    | S fuel' =>
        match to_visit with
        | [] => Some (indices, working)
        | current :: rest =>
            let '(indices', to_visit') := visit_neighbours current indices rest in
            cluster_fill fuel' indices' to_visit' (working ++ [current])
        end
    end.

  Fixpoint clusters_loop (fuel : nat) (indices : list voxel) (acc : list (list voxel)) : option (list (list voxel)) :=
    match fuel with
    | O => None
    | S fuel' =>
        match indices with
        | [] => Some acc
        | _ =>
            match vpick indices with
            | None => None
            | Some v =>
                match cluster_fill (S (length indices)) (vremove v indices) [v] [] with
                | None => None
                | Some (indices', working) => clusters_loop fuel' indices' (acc ++ [working])
                end
            end
        end
    end.
  Definition clusters_from_sparse (indices : list voxel) : option (list (list voxel)) :=
    clusters_loop (S (length indices)) indices [].
End Clusters.

(* --- primitive generators: index tables --- *)
Definition box_faces : list face :=
  [(4, 7, 5); (4, 6, 7); (0, 2, 4); (2, 6, 4); (0, 1, 2); (1, 3, 2);
   (1, 5, 7); (1, 7, 3); (2, 3, 7); (2, 7, 6); (0, 4, 1); (1, 4, 5)].

Definition cylinder_faces (steps : nat) : list face :=
  flat_map (fun i => let k := (i + 1) mod steps in
                     [(i * 2, k * 2 + 1, i * 2 + 1); (i * 2, k * 2, k * 2 + 1)]) (seq 0 steps).

(* consistent winding: no directed edge is traversed twice (every shared edge is traversed once in
   each direction); closed: every directed edge has its reverse *)
Fixpoint nodup_edges (l : list edge) : bool :=
  match l with
  | [] => true
  | e :: l' => negb (existsb (edge_eqb e) l') && nodup_edges l'
  end.
Definition consistently_wound (faces : list face) : bool := nodup_edges (naive_edges faces).
Definition closed_surface (faces : list face) : bool :=
  forallb (fun e => existsb (edge_eqb (snd e, fst e)) (naive_edges faces)) (naive_edges faces).
