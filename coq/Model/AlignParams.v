(* C08: alignment parameters about a rotation centre (geom2/align2.rs, rc_params2.rs; geom3/align3.rs,
   rotations.rs) and the analytic Jacobian rows (align2/jacobian.rs, align3/jacobian.rs).
   Rotations are explicit matrices; nalgebra's quaternion/complex arithmetic is compared to them per case. *)
From Coq Require Import ZArith List Bool Arith.
From EG Require Import Num.Num Lib.Vec Model.Types Model.Rigid.
Import ListNotations.

Section AlignParams.
  Context {N : Num}.
  Local Open Scope num_scope.

  (* ---------- 3x3 matrices as rows ---------- *)
  Definition M3 : Type := (V3 * V3 * V3)%type.
  Definition mrow (m : M3) (i : nat) : V3 := match i with O => fst (fst m) | S O => snd (fst m) | _ => snd m end.
  Definition mcol (m : M3) (j : nat) : V3 :=
    let pick (v : V3) := match j with O => x3 v | S O => y3 v | _ => z3 v end in
    mk3 (pick (mrow m 0)) (pick (mrow m 1)) (pick (mrow m 2)).
  Definition mtrans (m : M3) : M3 := (mcol m 0, mcol m 1, mcol m 2).
  Definition mvec (m : M3) (v : V3) : V3 := mk3 (dot3 (mrow m 0) v) (dot3 (mrow m 1) v) (dot3 (mrow m 2) v).
  Definition mmul (a b : M3) : M3 :=
    let r (i : nat) := mk3 (dot3 (mrow a i) (mcol b 0)) (dot3 (mrow a i) (mcol b 1)) (dot3 (mrow a i) (mcol b 2)) in
    (r 0%nat, r 1%nat, r 2%nat).
  Definition mk_m3 (a b c d e f g h i : num) : M3 := (mk3 a b c, mk3 d e f, mk3 g h i).

  Definition rot_x (a : num) : M3 := mk_m3 n1 n0 n0  n0 (ncos a) (- nsin a)  n0 (nsin a) (ncos a).
  Definition rot_y (a : num) : M3 := mk_m3 (ncos a) n0 (nsin a)  n0 n1 n0  (- nsin a) n0 (ncos a).
  Definition rot_z (a : num) : M3 := mk_m3 (ncos a) (- nsin a) n0  (nsin a) (ncos a) n0  n0 n0 n1.
  Definition P_X : M3 := mk_m3 n0 n0 n0  n0 n0 (- n1)  n0 n1 n0.
  Definition P_Y : M3 := mk_m3 n0 n0 n1  n0 n0 n0  (- n1) n0 n0.
  Definition P_Z : M3 := mk_m3 n0 (- n1) n0  n1 n0 n0  n0 n0 n0.

  (* RotationMatrices::from_euler *)
  Definition euler_m (rx ry rz : num) : M3 := mmul (mmul (rot_x rx) (rot_y ry)) (rot_z rz).
  Record rotmats := mkRot { rm_r : V3; rm_m : M3; rm_dx : M3; rm_dy : M3; rm_dz : M3; rm_rdx : M3; rm_rdy : M3; rm_rdz : M3 }.
  Definition from_euler (rx ry rz : num) : rotmats :=
    let m := euler_m rx ry rz in
    let ck := rot_z rz in
    let dx := mmul P_X m in
    let dy := mmul (mmul (mmul m (mtrans ck)) P_Y) ck in
    let dz := mmul m P_Z in
    let qi := mtrans m in
    mkRot (mk3 rx ry rz) m dx dy dz (mmul dx qi) (mmul dy qi) (mmul dz qi).

  (* to_wpr with the gimbal band of half-width eps around sin(ry) = +-1 *)
  Definition to_wpr (eps : num) (m : M3) : V3 :=
    let e (i j : nat) := match j with O => x3 (mrow m i) | S O => y3 (mrow m i) | _ => z3 (mrow m i) end in
    let sin_y := e 0%nat 2%nat in
    if n1 - eps <? sin_y then mk3 (natan2 (e 1%nat 0%nat) (e 1%nat 1%nat)) (npi / n2) n0
    else if sin_y <? eps - n1 then mk3 (- natan2 (e 1%nat 0%nat) (e 1%nat 1%nat)) ((- npi) / n2) n0
    else mk3 (natan2 (- e 1%nat 2%nat) (e 2%nat 2%nat)) (nasin sin_y) (natan2 (- e 0%nat 1%nat) (e 0%nat 0%nat)).
  Definition from_rotation (eps : num) (m : M3) : rotmats :=
    let w := to_wpr eps m in from_euler (x3 w) (y3 w) (z3 w).

  (* ---------- RcParams3 ---------- *)
  Record rc3 := mkRc3 { rc3_rc : V3; rc3_rcd : V3; rc3_x : V3 * V3; rc3_rot : rotmats }.
  Definition rc3_transform (s : rc3) (p : V3) : V3 :=
    add3 (add3 (mvec (rm_m (rc3_rot s)) (sub3 p (rc3_rc s))) (fst (rc3_x s))) (rc3_rcd s).
  Definition rc3_inverse (s : rc3) (p : V3) : V3 :=
    add3 (mvec (mtrans (rm_m (rc3_rot s))) (sub3 (sub3 p (rc3_rcd s)) (fst (rc3_x s)))) (rc3_rc s).
  Definition rc3_current (s : rc3) : V3 := rc3_transform s (rc3_rc s).
  Definition rc3_set (s : rc3) (x : V3 * V3) : rc3 :=
    mkRc3 (rc3_rc s) (rc3_rcd s) x (from_euler (x3 (snd x)) (y3 (snd x)) (z3 (snd x))).
  (* initial = (matrix m, translation t) *)
  Definition rc3_from_initial (eps : num) (m : M3) (t rc : V3) : rc3 :=
    let rot := from_rotation eps m in
    mkRc3 rc (add3 (mvec m rc) t) (mk3 n0 n0 n0, rm_r rot) rot.

  (* ---------- 3D Jacobian rows ---------- *)
  Definition signum (v : num) : num := if v <? n0 then - n1 else n1.     (* f64::signum away from -0.0 and NaN *)
  Definition plane_core (s : num) (cn from_rc : V3) (r : rotmats) : V3 * V3 :=
    let n := scale3 cn s in
    (n, mk3 (dot3 n (mvec (rm_rdx r) from_rc)) (dot3 n (mvec (rm_rdy r) from_rc)) (dot3 n (mvec (rm_rdz r) from_rc))).
  Definition point_plane_jacobian (p cp cn : V3) (s : rc3) : V3 * V3 :=
    plane_core (signum (dot3 cn (sub3 p cp))) cn (sub3 p (rc3_current s)) (rc3_rot s).
  Definition point_plane_jacobian_rev (p cp cn : V3) (s : rc3) : V3 * V3 :=
    plane_core (- signum (dot3 cn (sub3 p cp))) cn (sub3 cp (rc3_current s)) (rc3_rot s).
  Definition point_point_jacobian (p c : V3) (s : rc3) : V3 * V3 :=
    let m := sub3 p c in
    if nsq3 m <? nlit 1 (-16) then (mk3 n0 n0 n0, mk3 n0 n0 n0)
    else plane_core n1 (normalize3 m) (sub3 p (rc3_current s)) (rc3_rot s).

  (* ---------- 2D ---------- *)
  Definition iso2_from_param (x y th : num) : rigid2 := mkRigid2 (ncos th) (nsin th) (x, y).
  Definition param_from_iso2 (T : rigid2) : V3 := mk3 (fst (r2t T)) (snd (r2t T)) (natan2 (r2s T) (r2c T)).
  Record rc2 := mkRc2 { rc2_rc : V2; rc2_x : V3 }.
  Definition rc2_rot (s : rc2) : rigid2 := mkRigid2 (ncos (z3 (rc2_x s))) (nsin (z3 (rc2_x s))) (n0, n0).
  (* as_iso_about_origin: fwd * t * back *)
  Definition rc2_transform (s : rc2) (p : V2) : V2 :=
    add2 (add2 (rot2 (rc2_rot s) (sub2 p (rc2_rc s))) (x3 (rc2_x s), y3 (rc2_x s))) (rc2_rc s).
  Definition rc2_inverse (s : rc2) (p : V2) : V2 :=
    add2 (rot2 (mkRigid2 (r2c (rc2_rot s)) (- r2s (rc2_rot s)) (n0, n0)) (sub2 (sub2 p (rc2_rc s)) (x3 (rc2_x s), y3 (rc2_x s)))) (rc2_rc s).
  Definition rc2_current (s : rc2) : V2 := rc2_transform s (rc2_rc s).
  (* as_iso_about_center: back * initial * fwd, then its parameters *)
  Definition rc2_from_initial (T : rigid2) (rc : V2) : rc2 :=
    let tr := sub2 (apply2 T rc) rc in
    mkRc2 rc (mk3 (fst tr) (snd tr) (natan2 (r2s T) (r2c T))).
  Definition rc2_set (s : rc2) (x : V3) : rc2 := mkRc2 (rc2_rc s) x.
  Definition point_surface_jacobian (p sn : V2) (s : rc2) : V3 :=
    let from_rc := sub2 p (rc2_current s) in
    let v_rot : V2 := (- snd from_rc, fst from_rc) in
    mk3 (fst sn) (snd sn) (dot2 sn v_rot).
End AlignParams.
