(* C15: brute-force specifications of the k-d tree queries (common/kd_tree.rs wraps kiddo: squared distances in,
   square roots out, optional index remapping) and the greedy Poisson-disk selection (common/poisson_disk.rs).
   kiddo is an oracle validated per case against these specifications. *)
From Coq Require Import ZArith List Bool Arith.
From EG Require Import Num.Num Lib.Vec Model.Types Model.Curve Model.Closest.
Import ListNotations.

Section Spatial.
  Context {N : Num} (V : VOps).
  Local Open Scope num_scope.
  Notation P := (pt V).

  Definition pdsq (pts : list P) (q : P) (i : nat) : num := dsq V (nth i pts (vzero V)) q.

  (* within(point, radius): kiddo is asked for squared distance <= radius * radius *)
  Definition within_idx (pts : list P) (q : P) (r : num) : list nat :=
    filter (fun i => pdsq pts q i <=? r * r) (seq 0 (length pts)).

  (* smallest squared distance (first minimum) *)
  Definition nearest_idx (pts : list P) (q : P) : option nat :=
    fold_left (fun best i => match best with
                             | None => Some i
                             | Some b => if pdsq pts q i <? pdsq pts q b then Some i else best
                             end) (seq 0 (length pts)) None.

  (* PartialKdTree: the tree is built on the selected points, results are mapped back through index_map *)
  Definition select (pts : list P) (indices : list nat) : list P := map (fun i => nth i pts (vzero V)) indices.
  Definition remap (indices : list nat) (i : nat) : nat := nth i indices 0%nat.

  (* sample_poisson_disk: sweep over the working positions in the given order; a kept position masks every position
     within the radius (itself included); written as filtering of the positions still to visit *)
  Fixpoint poisson_go (fuel : nat) (wp : list P) (r : num) (cands : list nat) : list nat :=
    match fuel with
    | O => []
    | S fuel' =>
        match cands with
        | [] => []
        | m :: rest =>
            m :: poisson_go fuel' wp r (filter (fun w => negb (pdsq wp (nth m wp (vzero V)) w <=? r * r)) rest)
        end
    end.
  Definition sample_poisson_disk (pts : list P) (working : list nat) (r : num) : list nat :=
    let wp := select pts working in
    map (remap working) (poisson_go (S (length working)) wp r (seq 0 (length working))).
End Spatial.
