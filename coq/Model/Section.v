(* C13: engeom's part of Mesh::section (geom3/mesh/queries.rs): parry's intersection polyline (vertices + index
   pairs) -> chained_indices (C12) -> one Curve3 per chain, chains whose curve cannot be built are dropped.
   parry's plane/mesh intersection and split are oracles certified per case. *)
From Coq Require Import ZArith List Bool Arith.
From EG Require Import Num.Num Lib.Vec Model.Types Model.TolMap Model.Curve Model.MeshTopo.
Import ListNotations.

Section Section_.
  Context {N : Num}.
  Definition chain_points (verts : list V3) (chain : list nat) : list V3 := map (fun i => nth i verts (mk3 n0 n0 n0)) chain.
  Definition assemble (verts : list V3) (pairs : list edge) (tol : num) : option (list (curve (@VO3 N))) :=
    match chained_indices pairs with
    | None => None
    | Some chains =>
        Some (flat_map (fun ch => match from_points (@VO3 N) false (chain_points verts ch) tol false with
                                  | Ok c => [c] | _ => [] end) chains)
    end.
End Section_.
