(* Two-argument arctangent over the reals (the standard library has none). *)
From Coq Require Import Reals Lra.
Local Open Scope R_scope.

Definition atan2 (y x : R) : R :=
  if Rlt_dec 0 x then atan (y / x)
  else if Rlt_dec x 0 then
         (if Rle_dec 0 y then atan (y / x) + PI else atan (y / x) - PI)
  else if Rlt_dec 0 y then PI / 2
  else if Rlt_dec y 0 then - (PI / 2)
  else 0.
