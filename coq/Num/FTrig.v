(* Executable binary64 implementations of the libm functions the models call.
   Used ONLY to run the model inside coqc for the correspondence check; every
   run compares them against Rust's libm (harness self-test).  Accuracy target
   is 1e-13 absolute, far inside the 1e-9 comparison tolerance. *)
From Coq Require Import ZArith Floats.
Local Open Scope float_scope.

Definition two52 : float := 0x1p+52.

(* round to nearest integer, valid for |x| < 2^51 *)
Definition f_rint (x : float) : float :=
  if x <? 0 then (x - two52) + two52 else (x + two52) - two52.

Definition f_floor (x : float) : float :=
  if is_nan x then x else
  if (abs x) <? two52 then
    let r := f_rint x in if x <? r then r - 1 else r
  else x.
Definition f_ceil (x : float) : float := - f_floor (- x).

Definition pio2_1  : float := 0x1.921fb544p+0.        (* first 33 bits of pi/2 *)
Definition pio2_1t : float := 0x1.0b4611a626331p-34.  (* pi/2 - pio2_1 *)
Definition f_pi    : float := 0x1.921fb54442d18p+1.
Definition f_pio2  : float := 0x1.921fb54442d18p+0.
Definition invpio2 : float := 0x1.45f306dc9c883p-1.

Definition poly_sin (r : float) : float :=
  let z := r * r in
  r * (1 + z * (-0x1.5555555555555p-3 + z * (0x1.1111111111111p-7 + z * (-0x1.a01a01a01a01ap-13
     + z * (0x1.71de3a556c734p-19 + z * (-0x1.ae64567f544e4p-26 + z * (0x1.6124613a86d09p-33
     + z * (-0x1.ae7f3e733b81fp-41 + z * 0x1.952c77030ad4ap-49)))))))).

Definition poly_cos (r : float) : float :=
  let z := r * r in
  1 + z * (-0x1p-1 + z * (0x1.5555555555555p-5 + z * (-0x1.6c16c16c16c17p-10
     + z * (0x1.a01a01a01a01ap-16 + z * (-0x1.27e4fb7789f5cp-22 + z * (0x1.1eed8eff8d898p-29
     + z * (-0x1.93974a8c07c9dp-37 + z * (0x1.ae7f3e733b81fp-45 + z * -0x1.6827863b97d97p-53)))))))).

(* (r, q) with x = k*(pi/2) + r, |r| <= pi/4 (roughly), q = k mod 4 as a float *)
Definition reduce_pio2 (x : float) : float * float :=
  let k := f_rint (x * invpio2) in
  let r := (x - k * pio2_1) - k * pio2_1t in
  let q := k - 4 * f_floor (k / 4) in
  (r, q).

Definition f_sin (x : float) : float :=
  if is_nan x then x else if is_infinity x then nan else
  let '(r, q) := reduce_pio2 x in
  if q =? 0 then poly_sin r
  else if q =? 1 then poly_cos r
  else if q =? 2 then - poly_sin r
  else - poly_cos r.

Definition f_cos (x : float) : float :=
  if is_nan x then x else if is_infinity x then nan else
  let '(r, q) := reduce_pio2 x in
  if q =? 0 then poly_cos r
  else if q =? 1 then - poly_sin r
  else if q =? 2 then - poly_cos r
  else poly_sin r.

(* atan on [0, 1] by two half-angle reductions then the Maclaurin series *)
Definition atan_small (x : float) : float :=
  let z := x * x in
  x * (1 + z * (-0x1.5555555555555p-2 + z * (0x1.999999999999ap-3 + z * (-0x1.2492492492492p-3
     + z * (0x1.c71c71c71c71cp-4 + z * (-0x1.745d1745d1746p-4 + z * (0x1.3b13b13b13b14p-4
     + z * (-0x1.1111111111111p-4 + z * (0x1.e1e1e1e1e1e1ep-5 + z * (-0x1.af286bca1af28p-5
     + z * (0x1.8618618618618p-5 + z * (-0x1.642c8590b2164p-5 + z * (0x1.47ae147ae147bp-5
     + z * -0x1.2f684bda12f68p-5))))))))))))).

Definition half_arg (x : float) : float := x / (1 + PrimFloat.sqrt (1 + x * x)).

Definition atan_01 (x : float) : float := 4 * atan_small (half_arg (half_arg x)).

Definition f_atan (x : float) : float :=
  if is_nan x then x else
  let a := abs x in
  let r := if a <=? 1 then atan_01 a else f_pio2 - atan_01 (1 / a) in
  if x <? 0 then - r else r.

Definition f_atan2 (y x : float) : float :=
  if is_nan x then x else if is_nan y then y else
  if 0 <? x then f_atan (y / x)
  else if x <? 0 then (if 0 <=? y then f_atan (y / x) + f_pi else f_atan (y / x) - f_pi)
  else if 0 <? y then f_pio2
  else if y <? 0 then - f_pio2
  else 0.

Definition f_asin (x : float) : float := f_atan2 x (PrimFloat.sqrt ((1 - x) * (1 + x))).
Definition f_acos (x : float) : float := f_atan2 (PrimFloat.sqrt ((1 - x) * (1 + x))) x.
