(* The real-number interpretation: every property theorem is stated here. *)
From Coq Require Import ZArith Reals Lra.
From Flocq Require Import Core.Raux.
From EG Require Import Num.Num Num.Atan2.
Local Open Scope R_scope.

Definition Rlit (m e : Z) : R :=
  match e with
  | Z0 => IZR m
  | Zpos p => IZR (m * Z.pow_pos 10 p)
  | Zneg p => IZR m / IZR (Z.pow_pos 10 p)
  end.

Definition Rfmod (x y : R) : R := x - y * IZR (Ztrunc (x / y)).

#[global] Instance RNum : Num := {|
  num := R;
  nofZ := IZR;
  nlit := Rlit;
  nadd := Rplus; nsub := Rminus; nmul := Rmult; ndiv := Rdiv;
  nneg := Ropp; nabs := Rabs; nsqrt := sqrt;
  nmin := Rmin; nmax := Rmax;
  nltb := Rlt_bool; nleb := Rle_bool; neqb := Req_bool;
  nfmod := Rfmod;
  nsin := sin; ncos := cos; nasin := asin; nacos := acos;
  natan2 := atan2;
  npi := PI;
  nfloor := fun x => IZR (Zfloor x);
  nceil := fun x => IZR (Zceil x);
  nisnan := fun _ => false;
  nfinite := fun _ => true;
|}.

(* Reflection lemmas in the shape the proofs use. *)
Lemma Rltb_true x y : Rlt_bool x y = true <-> x < y.
Proof. destruct (Rlt_bool_spec x y); split; intros; try lra; try discriminate; auto. Qed.
Lemma Rltb_false x y : Rlt_bool x y = false <-> y <= x.
Proof. destruct (Rlt_bool_spec x y); split; intros; try lra; try discriminate; auto. Qed.
Lemma Rleb_true x y : Rle_bool x y = true <-> x <= y.
Proof. destruct (Rle_bool_spec x y); split; intros; try lra; try discriminate; auto. Qed.
Lemma Rleb_false x y : Rle_bool x y = false <-> y < x.
Proof. destruct (Rle_bool_spec x y); split; intros; try lra; try discriminate; auto. Qed.
Lemma Reqb_true x y : Req_bool x y = true <-> x = y.
Proof. destruct (Req_bool_spec x y); split; intros; try lra; try discriminate; auto. Qed.
Lemma Reqb_false x y : Req_bool x y = false <-> x <> y.
Proof. destruct (Req_bool_spec x y); split; intros; try lra; try discriminate; auto. Qed.

Ltac rbool :=
  repeat match goal with
  | H : Rlt_bool _ _ = true |- _ => apply Rltb_true in H
  | H : Rlt_bool _ _ = false |- _ => apply Rltb_false in H
  | H : Rle_bool _ _ = true |- _ => apply Rleb_true in H
  | H : Rle_bool _ _ = false |- _ => apply Rleb_false in H
  | H : Req_bool _ _ = true |- _ => apply Reqb_true in H
  | H : Req_bool _ _ = false |- _ => apply Reqb_false in H
  end.
