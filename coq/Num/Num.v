(* Arithmetic signature shared by every model file.
   The same model text is proved about at [RNum] (Coq reals) and executed at
   [FNum] (IEEE-754 binary64 through Coq's primitive floats). *)
From Coq Require Import ZArith List Bool.
Import ListNotations.

Class Num := mkNum {
  num : Type;
  nofZ : Z -> num;
  nlit : Z -> Z -> num;          (* nlit m e = m * 10^e, used for source literals *)
  nadd : num -> num -> num;
  nsub : num -> num -> num;
  nmul : num -> num -> num;
  ndiv : num -> num -> num;
  nneg : num -> num;
  nabs : num -> num;
  nsqrt : num -> num;
  nmin : num -> num -> num;      (* Rust f64::min / f64::max *)
  nmax : num -> num -> num;
  nltb : num -> num -> bool;
  nleb : num -> num -> bool;
  neqb : num -> num -> bool;
  nfmod : num -> num -> num;     (* Rust % on f64 (C fmod) *)
  nsin : num -> num;
  ncos : num -> num;
  nasin : num -> num;
  nacos : num -> num;
  natan2 : num -> num -> num;
  npi : num;
  nfloor : num -> num;
  nceil : num -> num;
  nisnan : num -> bool;
  nfinite : num -> bool;
}.

Declare Scope num_scope.
Delimit Scope num_scope with num.
Bind Scope num_scope with num.

Notation "x + y" := (nadd x y) : num_scope.
Notation "x - y" := (nsub x y) : num_scope.
Notation "x * y" := (nmul x y) : num_scope.
Notation "x / y" := (ndiv x y) : num_scope.
Notation "- x" := (nneg x) : num_scope.
Notation "x <? y" := (nltb x y) : num_scope.
Notation "x <=? y" := (nleb x y) : num_scope.
Notation "x =? y" := (neqb x y) : num_scope.

Section Derived.
  Context {N : Num}.
  Local Open Scope num_scope.
  Definition n0 : num := nofZ 0.
  Definition n1 : num := nofZ 1.
  Definition n2 : num := nofZ 2.
  Definition ngtb (x y : num) : bool := y <? x.
  Definition ngeb (x y : num) : bool := y <=? x.
  Definition nsq (x : num) : num := x * x.
  Definition nofnat (n : nat) : num := nofZ (Z.of_nat n).
End Derived.

Notation "x >? y" := (ngtb x y) : num_scope.
Notation "x >=? y" := (ngeb x y) : num_scope.

(* Three-way result used for Rust Result / Option / panic. *)
Inductive res (A : Type) : Type :=
| Ok : A -> res A
| Err : res A
| Panic : res A.
Arguments Ok {A} _.
Arguments Err {A}.
Arguments Panic {A}.

Definition res_bind {A B} (r : res A) (f : A -> res B) : res B :=
  match r with Ok a => f a | Err => Err | Panic => Panic end.
Definition res_map {A B} (f : A -> B) (r : res A) : res B :=
  match r with Ok a => Ok (f a) | Err => Err | Panic => Panic end.
Definition res_tag {A} (r : res A) : Z :=
  match r with Ok _ => 0%Z | Err => 1%Z | Panic => 2%Z end.
