(* The binary64 interpretation, through Coq's primitive floats.  Used only to
   execute the model inside coqc (Eval vm_compute) for the correspondence
   check.  + - * / sqrt and the comparisons are the kernel's IEEE operations. *)
From Coq Require Import ZArith Floats Uint63.
From EG Require Import Num.Num Num.FTrig.
Local Open Scope float_scope.

Definition f_ofZ (z : Z) : float :=
  match z with
  | Z0 => 0
  | Zpos _ => of_uint63 (Uint63.of_Z z)
  | Zneg p => - of_uint63 (Uint63.of_Z (Zpos p))
  end.

Definition f_lit (m e : Z) : float :=
  match e with
  | Z0 => f_ofZ m
  | Zpos p => f_ofZ m * f_ofZ (Z.pow_pos 10 p)
  | Zneg p => f_ofZ m / f_ofZ (Z.pow_pos 10 p)
  end.

(* Rust f64::min / max: a NaN operand is ignored *)
Definition f_min (a b : float) : float :=
  if is_nan a then b else if is_nan b then a else if b <? a then b else a.
Definition f_max (a b : float) : float :=
  if is_nan a then b else if is_nan b then a else if a <? b then b else a.

(* exact fmod for finite operands: repeated subtraction of y*2^k (each one exact) *)
Fixpoint fmod_loop (fuel : nat) (r y : float) : float :=
  match fuel with
  | O => r
  | S fuel' =>
      if r <? y then r else
      let '(_, er) := frshiftexp r in
      let '(_, ey) := frshiftexp y in
      let t0 := ldshiftexp y (Uint63.of_Z (Uint63.to_Z er - Uint63.to_Z ey + shift)) in
      let t := if r <? t0 then t0 / 2 else t0 in
      fmod_loop fuel' (r - t) y
  end.

Definition f_fmod (x y : float) : float :=
  if is_nan x then x else if is_nan y then y else
  if is_infinity x then nan else if y =? 0 then nan else
  if is_infinity y then x else
  let r := fmod_loop 2200 (abs x) (abs y) in
  if x <? 0 then - r else r.

Definition f_finite (x : float) : bool := negb (is_nan x) && negb (is_infinity x).

Definition FNum : Num := {|
  num := float;
  nofZ := f_ofZ;
  nlit := f_lit;
  nadd := PrimFloat.add; nsub := PrimFloat.sub; nmul := PrimFloat.mul; ndiv := PrimFloat.div;
  nneg := PrimFloat.opp; nabs := PrimFloat.abs; nsqrt := PrimFloat.sqrt;
  nmin := f_min; nmax := f_max;
  nltb := PrimFloat.ltb; nleb := PrimFloat.leb; neqb := PrimFloat.eqb;
  nfmod := f_fmod;
  nsin := f_sin; ncos := f_cos; nasin := f_asin; nacos := f_acos;
  natan2 := f_atan2;
  npi := f_pi;
  nfloor := f_floor;
  nceil := f_ceil;
  nisnan := is_nan;
  nfinite := f_finite;
|}.

(* Comparison with tolerance, used by the correspondence checkers. *)
Definition f_close_tol (tol a b : float) : bool :=
  if is_nan a then is_nan b else if is_nan b then false else
  if a =? b then true else
  abs (a - b) <=? tol * f_max 1 (f_max (abs a) (abs b)).
Definition f_close := f_close_tol 0x1.12e0be826d695p-30.  (* 1e-9 *)
Definition f_close6 := f_close_tol 0x1.0c6f7a0b5ed8dp-20. (* 1e-6 *)
