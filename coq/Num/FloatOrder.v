(* Finite binary64 values embed order-exactly into the reals (Flocq's IEEE754.PrimFloat).
   Lets comparison-only model code be proved for binary64 itself. *)
From Coq Require Import ZArith Reals Bool.
From Flocq Require Import Core IEEE754.BinarySingleNaN IEEE754.PrimFloat.
From Coq Require Import Floats.

Definition F2R' (x : PrimFloat.float) : R := B2R (Prim2B x).
Definition fin (x : PrimFloat.float) : Prop := BinarySingleNaN.is_finite (Prim2B x) = true.

Lemma ltb_real x y : fin x -> fin y -> PrimFloat.ltb x y = Rlt_bool (F2R' x) (F2R' y).
Proof. unfold fin, F2R'; intros Hx Hy. rewrite ltb_equiv. apply Bltb_correct; assumption. Qed.

Lemma leb_real x y : fin x -> fin y -> PrimFloat.leb x y = Rle_bool (F2R' x) (F2R' y).
Proof. unfold fin, F2R'; intros Hx Hy. rewrite leb_equiv. apply Bleb_correct; assumption. Qed.

Lemma eqb_real x y : fin x -> fin y -> PrimFloat.eqb x y = Req_bool (F2R' x) (F2R' y).
Proof. unfold fin, F2R'; intros Hx Hy. rewrite eqb_equiv. apply Beqb_correct; assumption. Qed.

Lemma fin_not_nan x : fin x -> PrimFloat.is_nan x = false.
Proof.
  unfold fin; intros Hx. rewrite is_nan_equiv.
  destruct (Prim2B x); simpl in *; congruence.
Qed.
