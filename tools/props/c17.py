"""C17  Series and discrete domains stay sorted, finite and function-preserving."""
import math
import common as C
from common import Some, Nat, Raw, opt, coq

LEVEL = "proof"
COQ_IMPORTS = ["Tie.C17"]
RULE = ("abscissa vectors: strictly increasing, with repeated values, 1-2 elements, non-finite and unsorted (rejected); ordinates "
        "random incl. plateaus at the probed level; queries at knots, one ulp either side, interior, outside; bounds in either "
        "order, equal bounds, counts 0/1/2/n; negative / zero scale factors; slices on knots, on one interval, at the ends. "
        "trivial = empty input; distinct = distinct (tag, input)")
TRUSTED_BASE = [
    "Coq 8.16.1 kernel and vm_compute",
    "hand-written model coq/Model/Series.v (binary search = its specification; NaN = None), tied by differential correspondence Tie/C17.v",
    "harness/src/c17.rs, generators and oracles in tools/props/c17.py",
]
ASSUMPTIONS = [
    "theorems over exact reals; order/validity clauses are comparison-only",
    "slice::binary_search_by may return any index among equal abscissae: at a repeated knot any stored ordinate is accepted, slices starting on a repeated knot are not compared",
    "bounds passed to linear()/linear_space() are finite (they return a domain, not a Result)",
]


def rnd_xs(rng, strict=None):
    n = rng.choice([1, 2, 2, 3, 4, 6, 9])
    if strict is None:
        strict = rng.random() < 0.7
    xs = []
    x = rng.choice([0.0, -3.0, rng.uniform(-5, 5)])
    for _ in range(n):
        xs.append(x)
        x += rng.choice([0.5, 1.0, rng.uniform(0.01, 2.0)]) if strict or rng.random() < 0.6 else 0.0
    return xs


def gen_domain(rng):
    r = rng.random()
    if r < 0.5:
        vals = rnd_xs(rng)
    elif r < 0.7:
        vals = [rng.uniform(-3, 3) for _ in range(rng.randint(0, 5))]
    else:
        vals = rnd_xs(rng)
        vals[rng.randrange(len(vals))] = rng.choice([math.nan, math.inf, -math.inf])
    pushes = []
    v = rng.uniform(-2, 2)
    for _ in range(rng.randint(0, 6)):
        rr = rng.random()
        if rr < 0.6:
            v += rng.uniform(0, 1)
        elif rr < 0.75:
            pass
        elif rr < 0.9:
            v -= rng.uniform(0.1, 1)
        pushes.append(rng.choice([math.nan, math.inf]) if rng.random() < 0.08 else v)
    a, b = rng.uniform(-5, 5), rng.uniform(-5, 5)
    if rng.random() < 0.2:
        b = a
    if rng.random() < 0.3:
        a, b = float(round(a)), float(round(b))
    n = rng.choice([0, 1, 2, 3, 5, 8])
    return {"k": "c17.domain", "vals": vals, "pushes": pushes, "a": a, "b": b, "n": n}


def gen_series(rng):
    xs = rnd_xs(rng)
    level = rng.choice([0.0, 0.5, 1.0, rng.uniform(-1, 2)])
    ys = []
    for _ in xs:
        r = rng.random()
        ys.append(level if r < 0.3 else (float(rng.randint(-2, 3)) if r < 0.6 else rng.uniform(-2, 3)))
    qs = []
    for x in xs:
        qs += [x, math.nextafter(x, -math.inf), math.nextafter(x, math.inf)]
    qs += [xs[0] - 1, xs[-1] + 1, rng.uniform(xs[0], xs[-1]), rng.uniform(xs[0], xs[-1])]
    lo, hi = xs[0], xs[-1]
    r = rng.random()
    if r < 0.3:
        x0, x1 = rng.choice(xs), rng.choice(xs)
    elif r < 0.6:
        x0, x1 = rng.uniform(lo, hi), rng.uniform(lo, hi)
    elif r < 0.8:
        x0, x1 = lo, rng.uniform(lo, hi)
    else:
        x0, x1 = rng.uniform(lo, hi), hi
    if x0 > x1:
        x0, x1 = x1, x0
    return {"k": "c17.series", "xs": xs, "ys": ys, "qs": qs, "sx": rng.choice([-2.0, -1.0, 0.5, 1.0, 3.0, 0.0]), "sy": rng.choice([-1.0, 2.0, 0.5]),
            "dx": rng.uniform(-3, 3), "dy": rng.uniform(-3, 3), "x0": x0, "x1": x1, "level": level,
            "n": rng.choice([0, 1, 2, 3, 5, 10]), "spacing": rng.choice([0.1, 0.37, 1.0, 5.0]),
            "nan_at": sorted(rng.sample(range(len(xs)), rng.choice([0, 0, 1, min(2, len(xs))])))}


def corpus():
    # D14 witnesses (fixed)
    yield {"k": "c17.domain", "vals": [1.0, 2.0, 3.0], "pushes": [1.0, 1.0, 0.5, 2.0], "a": 2.0, "b": 1.0, "n": 3}
    yield {"k": "c17.domain", "vals": [1.0, 2.0, 3.0], "pushes": [], "a": 0.0, "b": 1.0, "n": 1}
    yield {"k": "c17.series", "xs": [0.0, 1.0, 2.0, 3.0], "ys": [0.0, 1.0, 1.0, 0.0], "qs": [0.5, 1.0, 1.5, 3.0], "sx": -1.0, "sy": 1.0,
           "dx": 0.0, "dy": 0.0, "x0": 0.5, "x1": 2.5, "level": 1.0, "n": 4, "spacing": 0.5}


def generate(rng, tier):
    n = 150 if tier == "quick" else 2500
    out = []
    for _ in range(n):
        out.append(gen_domain(rng))
        out.append(gen_series(rng))
    return out


def tag(c, r):
    k = c["k"]
    if k == "c17.domain":
        return "%s:%s:n%d:%s" % (k, "ok" if r["try_from"] is not None else "rej", c["n"], "rev" if c["a"] > c["b"] else ("eq" if c["a"] == c["b"] else "fwd"))
    if r.get("err"):
        return k + ":rejected"
    dup = len(set(c["xs"])) < len(c["xs"])
    return "%s:len%d:%s:sx%s:n%d" % (k, min(len(c["xs"]), 6) // 2, "dup" if dup else "strict", "neg" if c["sx"] < 0 else ("zero" if c["sx"] == 0 else "pos"), min(c["n"], 3))


def pj(v):
    """panic-or-value -> option"""
    if isinstance(v, dict) and v.get("panic"):
        return None
    return v


def ser_opt(v):
    v = pj(v)
    if v is None:
        return None
    return Some((list(v["x"]), list(v["y"])))


def coq_check(c, r):
    k = c["k"]
    if k == "c17.domain":
        obs = [(bool(o["ok"]), list(o["vals"])) for o in r["pushes"]]

        def ol(v):
            v = pj(v)
            return None if v is None else Some(list(v))
        return "check_domain %s %s %s %s %s %s %s %s %s %s" % (
            coq(c["vals"]), coq(None if r["try_from"] is None else Some(list(r["try_from"]))), coq(c["pushes"]), coq(obs),
            coq(c["a"]), coq(c["b"]), coq(c["n"]), coq(ol(r["linear"])), coq(ol(r["linear_rev"])), coq(ol(r["linear_space"])))
    if k == "c17.series":
        if r.get("err"):
            return None
        ri = [None if (isinstance(v, dict) and v.get("panic")) else Some(v) for v in r["interp"]]
        cross = pj(r["cross"])
        area = pj(r["area"])
        return "check_series %s %s %s %s %s %s %s %s %s %s %s %s %s %s %s %s %s %s" % (
            coq(c["xs"]), coq(c["ys"]), coq(c["qs"]), coq(ri), coq(c["sx"]), coq(c["sy"]), coq(c["dx"]), coq(c["dy"]),
            coq(ser_opt(r["scaled"])), coq(ser_opt(r["shifted"])), coq(c["x0"]), coq(c["x1"]), coq(ser_opt(r["between"])),
            coq(c["level"]), coq(None if cross is None else Some(list(cross))), coq(c["n"]), coq(ser_opt(r["resampled"])),
            coq(None if area is None else Some(area)))
    return None


# ------------------------------------------------------------------ search oracles

def valid(xs):
    return all(math.isfinite(x) for x in xs) and all(a <= b for a, b in zip(xs, xs[1:]))


def interp(xs, ys, x):
    """piecewise-linear interpolant as a set of admissible values (repeated knots admit several)"""
    if x < xs[0] or x > xs[-1]:
        return None
    at = [y for a, y in zip(xs, ys) if a == x]
    if at:
        return at
    for i in range(len(xs) - 1):
        if xs[i] < x < xs[i + 1]:
            return [ys[i] + (ys[i + 1] - ys[i]) / (xs[i + 1] - xs[i]) * (x - xs[i])]
    return None


def check_series_obj(name, v, n_expected=None):
    if v is None:
        return
    if len(v["x"]) != len(v["y"]):
        yield ("series-length", "%s: %d abscissae but %d ordinates" % (name, len(v["x"]), len(v["y"])))
    if not valid(v["x"]):
        yield ("series-invalid", "%s returned abscissae that are not finite and ascending: %r" % (name, v["x"]))


def oracle(c, r):
    k = c["k"]
    if k == "c17.domain":
        vals = c["vals"]
        if (r["try_from"] is not None) != valid(vals):
            yield ("domain-try-from", "try_from(%r) %s" % (vals, "accepted an invalid vector" if r["try_from"] is not None else "rejected a valid vector"))
        held = []
        for v, o in zip(c["pushes"], r["pushes"]):
            want_ok = math.isfinite(v) and (not held or v >= held[-1])
            if o["ok"] != want_ok:
                yield ("domain-push", "push(%r) onto %r returned %s" % (v, held, "Ok" if o["ok"] else "Err"))
            if want_ok:
                held = held + [v]
            if [float(x) for x in o["vals"]] != held and o["ok"] == want_ok:
                yield ("domain-push-state", "after push(%r) the domain is %r, expected %r" % (v, o["vals"], held))
            held = [float(x) for x in o["vals"]]
        a, b, n = c["a"], c["b"], c["n"]
        for nm in ("linear", "linear_rev", "linear_space"):
            v = pj(r[nm])
            if v is None:
                if n >= 1:
                    yield ("linear-panic", "%s(%r, %r, %d) panicked" % (nm, a, b, n))
                continue
            if len(v) != n:
                yield ("linear-count", "%s(%r, %r, %d) has %d values" % (nm, a, b, n, len(v)))
            if not valid(v):
                yield ("linear-invalid", "%s(%r, %r, %d) = %r is not a finite ascending domain" % (nm, a, b, n, v))
            elif n >= 2:
                if not (C.close(v[0], min(a, b)) and C.close(v[-1], max(a, b))):
                    yield ("linear-span", "%s(%r, %r, %d) = %r does not span the bounds" % (nm, a, b, n, v))
                if a != b and len(set(v)) == 1:
                    yield ("linear-collapsed", "%s(%r, %r, %d) = %r collapsed" % (nm, a, b, n, v))
        lr, lf = pj(r["linear"]), pj(r["linear_rev"])
        if lr is not None and lf is not None and len(lr) == len(lf) and not all(C.close(x, y) for x, y in zip(lr, lf)):
            yield ("linear-order", "linear(%r, %r, %d) = %r but linear(%r, %r, %d) = %r" % (a, b, n, lr, b, a, n, lf))
        return
    # series
    xs, ys = c["xs"], c["ys"]
    if r.get("err"):
        if valid(xs) and len(xs) == len(ys):
            yield ("series-rejected", "try_new rejected valid input %r" % (xs,))
        return
    strict = len(set(xs)) == len(xs)
    for q, v in zip(c["qs"], r["interp"]):
        if isinstance(v, dict):
            yield ("interp-panic", "interpolate(%r) panicked on xs=%r" % (q, xs))
            continue
        want = interp(xs, ys, q)
        if want is None:
            if not math.isnan(v):
                yield ("interp-outside", "interpolate(%r) = %r outside [%r, %r]" % (q, v, xs[0], xs[-1]))
        elif not any(C.close(w, v) for w in want):
            yield ("interp-value", "interpolate(%r) = %r, the piecewise-linear graph gives %r (xs=%r ys=%r)" % (q, v, want, xs, ys))
    for nm in ("scaled", "shifted"):
        v = pj(r[nm])
        if v is None:
            yield (nm + "-panic", "%s panicked on valid series xs=%r (sx=%r)" % (nm, xs, c["sx"]))
        else:
            yield from check_series_obj(nm, v)
    sc = pj(r["scaled"])
    if sc is not None and len(sc["x"]) == len(xs):
        pairs = sorted(zip([x * c["sx"] for x in xs], [y * c["sy"] for y in ys]), key=lambda p: p[0])
        if sorted(sc["x"]) != sorted(p[0] for p in pairs):
            yield ("scaled-values", "scaled_by abscissae %r, expected %r" % (sc["x"], [p[0] for p in pairs]))
    # NaN removal: the finite pairs in order, nothing else
    rm = pj(r.get("removed"))
    na = c.get("nan_at", [])
    if "removed" in r:
        want = [(x, y) for i, (x, y) in enumerate(zip(xs, ys)) if i not in na]
        if rm is None:
            if len(want) >= 1 and valid([x for x, _ in want]):
                yield ("remove-nan", "remove_nan panicked on xs=%r with NaN ordinates at %r" % (xs, na))
        else:
            yield from check_series_obj("remove_nan", rm["out"])
            if rm["has_nan"] != bool(na):
                yield ("remove-nan", "has_nan() = %r with NaN ordinates at %r" % (rm["has_nan"], na))
            if list(zip(rm["out"]["x"], rm["out"]["y"])) != want:
                yield ("remove-nan", "remove_nan on xs=%r ys=%r with NaN at %r gave %r, the finite pairs are %r" % (xs, ys, na, list(zip(rm["out"]["x"], rm["out"]["y"])), want))
    ex = pj(r.get("extremes"))
    if ex is not None:
        want = {"x_min": xs[0], "x_max": xs[-1], "y_min": min(ys), "y_max": max(ys), "ordered": len(set(xs)) == len(xs), "npoints": len(xs), "interval": [xs[0], xs[-1]]}
        for key, w in want.items():
            if ex[key] != w:
                yield ("series-extremes", "%s = %r on xs=%r ys=%r, expected %r" % (key, ex[key], xs, ys, w))
                break
        else:
            if ex["gmax"][1] != max(ys) or ex["gmin"][1] != min(ys) or ys[xs.index(ex["gmax"][0])] != max(ys) and ex["gmax"][0] not in [x for x, y in zip(xs, ys) if y == max(ys)] or ex["gmin"][0] not in [x for x, y in zip(xs, ys) if y == min(ys)]:
                yield ("series-extremes", "global maximum %r / minimum %r on xs=%r ys=%r" % (ex["gmax"], ex["gmin"], xs, ys))
    for nm in ("abs", "dydx"):
        v = pj(r.get(nm))
        if v is not None:
            yield from check_series_obj(nm, v)
            if nm == "abs" and (v["x"] != xs or v["y"] != [abs(y) for y in ys]):
                yield ("abs-values", "abs() of xs=%r ys=%r gave %r / %r" % (xs, ys, v["x"], v["y"]))
    x0, x1 = c["x0"], c["x1"]
    bt = pj(r["between"])
    iv = pj(r.get("in_interval"))
    if "in_interval" in r and (iv is None) != (bt is None) or (iv is not None and bt is not None and (iv["x"] != bt["x"] or iv["y"] != bt["y"])):
        yield ("in-interval", "in_interval([%r, %r]) = %r but between gives %r" % (x0, x1, iv, bt))
    if xs[0] <= x0 < x1 <= xs[-1]:
        if bt is None:
            yield ("between-panic", "between(%r, %r) panicked on xs=%r" % (x0, x1, xs))
        else:
            yield from check_series_obj("between", bt)
            if bt["x"] and (bt["x"][0] != x0 or bt["x"][-1] != x1):
                yield ("between-ends", "between(%r, %r) spans [%r, %r]" % (x0, x1, bt["x"][0], bt["x"][-1]))
            if valid(bt["x"]) and len(bt["x"]) == len(bt["y"]):
                # with repeated abscissae (jumps) the slice is compared away from the jumps, where the graph is single valued
                probes = [x0, x1, (x0 + x1) / 2, x0 + 0.3 * (x1 - x0)] + [x for x in xs if x0 <= x <= x1]
                if not strict:
                    jumps = set(x for i, x in enumerate(xs) if i + 1 < len(xs) and xs[i + 1] == x)
                    probes = [t for t in probes if t not in jumps]
                for t in probes:
                    a, b = interp(bt["x"], bt["y"], t), interp(xs, ys, t)
                    if a is None or b is None or not any(C.close(u, w, 1e-8) for u in a for w in b):
                        yield ("between-agrees", "slice [%r, %r] evaluates to %r at %r, parent %r" % (x0, x1, a, t, b))
                        break
    # split areas add up
    sa, ar = pj(r["split_areas"]), pj(r["area"])
    if sa is not None and ar is not None and xs[0] <= x0 <= xs[-1] and len(xs) >= 2:
        tot = (sa["a"] or 0.0) + (sa["b"] or 0.0)
        if not C.close(tot, ar, 1e-8):
            yield ("split-area", "areas of the pieces split at %r add to %r, the whole is %r (xs=%r ys=%r)" % (x0, tot, ar, xs, ys))
    if ar is not None and len(xs) >= 2:
        want = sum((xs[i + 1] - xs[i]) * (ys[i] + ys[i + 1]) * 0.5 for i in range(len(xs) - 1))
        if not C.close(ar, want, 1e-8):
            yield ("area", "area_under = %r, trapezoid sum %r" % (ar, want))
    # crossings
    cr = pj(r["cross"])
    lvl = c["level"]
    if cr is None:
        if len(xs) >= 1:
            yield ("crossings-panic", "y_crossings(%r) panicked on xs=%r ys=%r" % (lvl, xs, ys))
    elif strict:
        for x in cr:
            w = interp(xs, ys, x)
            if w is None or not any(abs(v - lvl) <= 1e-7 * max(1.0, abs(lvl)) for v in w):
                yield ("crossings-sound", "y_crossings(%r) reports %r where the interpolant is %r" % (lvl, x, w))
                break
        for i in range(len(xs) - 1):
            lo, hi = min(ys[i], ys[i + 1]), max(ys[i], ys[i + 1])
            if lo < lvl < hi:
                xc = xs[i] + (lvl - ys[i]) / (ys[i + 1] - ys[i]) * (xs[i + 1] - xs[i])
                if not any(abs(xc - x) <= 2e-10 + 1e-9 * abs(xc) for x in cr):
                    yield ("crossings-complete", "the interpolant equals %r at %r but y_crossings = %r" % (lvl, xc, cr))
                    break
            # a knot exactly at the level (and both ends of a segment lying flat at the level) is a place where the
            # interpolant equals the level
            try:
                m = (ys[i + 1] - ys[i]) / (xs[i + 1] - xs[i])
            except (ZeroDivisionError, OverflowError):
                continue
            if math.isfinite(m):
                miss = [xs[j] for j in (i, i + 1) if ys[j] == lvl and not any(abs(xs[j] - x) <= 2e-10 + 1e-9 * abs(xs[j]) for x in cr)]
                if miss:
                    yield ("crossings-knot", "the series takes the level %r at its knot %r (segment %d, ordinates %r, %r) but y_crossings = %r" % (lvl, miss[0], i, ys[i], ys[i + 1], cr))
                    break
    # resampling
    rs = pj(r["resampled"])
    n = c["n"]
    if rs is None:
        if n >= 1:
            yield ("resample-panic", "resampled_n(%d) panicked on xs=%r" % (n, xs))
    else:
        yield from check_series_obj("resampled_n", rs)
        if len(rs["x"]) != n:
            yield ("resample-count", "resampled_n(%d) has %d points" % (n, len(rs["x"])))
        if n >= 2 and rs["x"] and not (C.close(rs["x"][0], xs[0]) and C.close(rs["x"][-1], xs[-1])):
            yield ("resample-ends", "resampled_n(%d) spans [%r, %r], the series spans [%r, %r]" % (n, rs["x"][0], rs["x"][-1], xs[0], xs[-1]))
        if strict:
            for x, y in zip(rs["x"], rs["y"]):
                w = interp(xs, ys, x)
                if w is None or not any(C.close(v, y, 1e-8) for v in w):
                    yield ("resample-graph", "resampled point (%r, %r) is off the graph (%r)" % (x, y, w))
                    break
