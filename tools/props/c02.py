"""C02  Closest-point and distance queries return the global optimum."""
import math
import common as C
from common import Some, Nat, Raw, opt, coq
from props import c01

LEVEL = "proof"
COQ_IMPORTS = ["Tie.C02"]
RULE = ("2D/3D polylines: random, long and thin, nested spirals, nearly coincident runs, 2..150 vertices (so the bounding-volume tree takes many shapes); "
        "meshes: boxes, random triangle soups, fans with a shared vertex, thin slivers, coplanar patches, 1..80 faces, non-solid; query points on the "
        "entity, at vertices, equidistant from several elements, near, far, inside closed shapes; distance caps below, at and above the true "
        "distance; angle limits from 0 to pi/2. distinct = distinct (tag, input)")
TRUSTED_BASE = [
    "Coq 8.16.1 kernel and vm_compute",
    "hand-written executable specification coq/Model/Closest.v (exhaustive scan over every edge / face), tied by differential correspondence Tie/C02.v: the implementation's distance must equal the scan's minimum, its point must be at that distance and be reproduced by its index/fraction",
    "parry's accelerated point projection is an oracle validated on every case against the exhaustive scan (in Coq and again in Python)",
]
ASSUMPTIONS = [
    "theorems over exact reals about the specification; ties (several minimisers) are compared by distance, not by point",
    "triangle closest point: the specification takes the plane projection when inside and the best edge otherwise; that this is the optimum over the whole closed triangle is proved for every triangle of non-zero area (C02_triangle) and lifted to the scan over all faces (C02_mesh); dense sampling per case remains as a cross-check",
]


def rnd_poly(rng, dim):
    kind = rng.choice(["random", "thin", "spiral", "coincident", "c01"])
    n = rng.choice([2, 3, 6, 20, 60, 150])
    if kind == "c01":
        return c01.rnd_pts(rng, dim)
    if kind == "thin":
        return [[i * 1.0 + rng.uniform(-0.1, 0.1)] + [rng.uniform(-0.01, 0.01) for _ in range(dim - 1)] for i in range(n)]
    if kind == "spiral":
        return [[(1 + 0.05 * i) * math.cos(0.4 * i), (1 + 0.05 * i) * math.sin(0.4 * i)] + ([0.01 * i] if dim == 3 else []) for i in range(n)]
    if kind == "coincident":
        pts = []
        for i in range(n):
            x = (i % 10) * 0.5
            pts.append([x if (i // 10) % 2 == 0 else 4.5 - x, (i // 10) * 1e-3] + ([0.0] if dim == 3 else []))
        return pts
    return [[rng.uniform(-5, 5) for _ in range(dim)] for _ in range(n)]


def queries(rng, pts, dim):
    qs = []
    for _ in range(4):
        qs.append([rng.uniform(-6, 6) for _ in range(dim)])
    v = pts[rng.randrange(len(pts))]
    qs.append(list(v))
    qs.append([a + rng.uniform(-1e-3, 1e-3) for a in v])
    i = rng.randrange(len(pts) - 1)
    f = rng.random()
    on = [a + f * (b - a) for a, b in zip(pts[i], pts[i + 1])]
    qs.append(on)
    qs.append([a * 100 for a in qs[0]])
    if len(pts) >= 3:
        qs.append([(a + b) / 2 for a, b in zip(pts[0], pts[2])])
    return qs


def gen_curve(rng, dim):
    pts = rnd_poly(rng, dim)
    c = {"k": "c02.curve%d" % dim, "pts": pts, "tol": 1e-9, "qs": queries(rng, pts, dim)}
    if dim == 2:
        c["closed"] = False
    return c


def box_mesh(rng):
    w = [rng.uniform(0.5, 3) for _ in range(3)]
    o = [rng.uniform(-2, 2) for _ in range(3)]
    verts = [[o[0] + (w[0] if i & 1 else 0), o[1] + (w[1] if i & 2 else 0), o[2] + (w[2] if i & 4 else 0)] for i in range(8)]
    faces = [[0, 2, 1], [1, 2, 3], [4, 5, 6], [5, 7, 6], [0, 1, 4], [1, 5, 4], [2, 6, 3], [3, 6, 7], [0, 4, 2], [2, 4, 6], [1, 3, 5], [3, 7, 5]]
    return verts, faces


def gen_mesh(rng):
    kind = rng.choice(["box", "soup", "fan", "sliver", "coplanar", "coplanar", "degenerate"])
    if kind == "box":
        verts, faces = box_mesh(rng)
    elif kind == "soup":
        nf = rng.choice([1, 3, 10, 40, 80])
        verts, faces = [], []
        for i in range(nf):
            c = [rng.uniform(-3, 3) for _ in range(3)]
            for _ in range(3):
                verts.append([a + rng.uniform(-1, 1) for a in c])
            faces.append([3 * i, 3 * i + 1, 3 * i + 2])
    elif kind == "fan":
        n = rng.choice([3, 6, 12])
        verts = [[0.0, 0.0, rng.uniform(0, 1)]] + [[math.cos(2 * math.pi * i / n), math.sin(2 * math.pi * i / n), 0.0] for i in range(n)]
        faces = [[0, 1 + i, 1 + (i + 1) % n] for i in range(n)]
    elif kind == "sliver":
        verts = [[0.0, 0.0, 0.0], [10.0, 0.0, 0.0], [5.0, 1e-3, 0.0], [5.0, -1.0, 2.0]]
        faces = [[0, 1, 2], [0, 3, 1]]
    elif kind == "degenerate":
        # an ordinary triangle and, away from it, a face without area (collinear dyadic vertices) or of micrometre size
        verts = [[0.0, 0.0, 0.0], [2.0, 0.0, 0.0], [0.0, 2.0, 0.0]]
        if rng.random() < 0.6:
            verts += [[6.0, 0.0, 1.0], [6.5, 0.5, 1.0], [7.0, 1.0, 1.0]]
        else:
            verts += [[6.0, 0.0, 1.0], [6.0 + 1e-8, 0.0, 1.0], [6.0, 1e-8, 1.0]]
        faces = [[0, 1, 2], [3, 4, 5]]
    else:
        verts = [[float(i), float(j), 0.0] for j in range(4) for i in range(4)]
        faces = []
        for j in range(3):
            for i in range(3):
                a = j * 4 + i
                faces += [[a, a + 1, a + 5], [a, a + 5, a + 4]]
    qs = []
    for _ in range(5):
        qs.append([rng.uniform(-4, 4) for _ in range(3)])
    f = faces[rng.randrange(len(faces))]
    w = [rng.random() for _ in range(3)]
    sw = sum(w)
    onf = [sum(w[k] / sw * verts[f[k]][j] for k in range(3)) for j in range(3)]
    qs.append(onf)
    qs.append([a + rng.uniform(-0.2, 0.2) for a in onf])
    qs.append(list(verts[f[0]]))
    qs.append([(a + b) / 2 + rng.uniform(-0.3, 0.3) for a, b in zip(verts[f[0]], verts[f[1]])])
    if kind == "degenerate":
        qs += [[6.5 + rng.uniform(-1, 1), 0.5 + rng.uniform(-1, 1), 1.0 + rng.uniform(-1, 1)] for _ in range(3)]
    if kind == "coplanar":
        # level with the flat open grid, beyond its rim and beyond a corner: the closest point is on the border and the offset
        # lies in the plane of the faces
        t = rng.uniform(0.2, 2.0)
        qs += [rng.choice([[3.0 + t, rng.uniform(0, 3), 0.0], [-t, rng.uniform(0, 3), 0.0], [rng.uniform(0, 3), 3.0 + t, 0.0]]), [3.0 + t, 3.0 + rng.uniform(0.1, 1), 0.0]]
    elif kind == "box":
        # beside an edge of the box, in the plane of one of the two faces meeting there
        xs = [v[0] for v in verts]; ys = [v[1] for v in verts]; zs = [v[2] for v in verts]
        qs.append([max(xs) + rng.uniform(0.2, 1.5), rng.uniform(min(ys), max(ys)), max(zs)])
    d_guess = rng.choice([0.05, 0.3, 1.0, 5.0])
    # the solid flag: set on meshes without an interior (nothing to be inside of) and on boxes, whose interior queries the
    # property leaves out (the oracle skips them)
    solid = rng.random() < 0.35
    return {"k": "c02.mesh", "verts": verts, "faces": faces, "solid": solid, "qs": qs, "max_dist": d_guess,
            "max_angle": rng.choice([0.1, 0.5, 1.0, math.pi / 2, 0.0]), "kind": kind,
            "frame": [rng.uniform(-20, 20) for _ in range(3)] + [rng.uniform(-2, 2) for _ in range(3)]}


def corpus():
    yield {"k": "c02.curve2", "pts": [[0.0, 0.0], [1.0, 0.0], [1.0, 1.0]], "tol": 1e-9, "closed": False, "qs": [[0.5, 0.5], [2.0, 2.0], [1.0, 0.0], [-1.0, 0.3]]}


def generate(rng, tier):
    n = 70 if tier == "quick" else 1000
    out = []
    for _ in range(n):
        out += [gen_curve(rng, 2), gen_curve(rng, 3), gen_mesh(rng)]
    return out


def tag(c, r):
    k = c["k"]
    if r.get("err"):
        return k + ":rejected"
    if k == "c02.mesh":
        return "%s:%s" % (k, c["kind"])
    return "%s:%d" % (k, min(len(c["pts"]), 60))


def T(p):
    return tuple(float(x) for x in p)


def coq_check(c, r):
    k = c["k"]
    if r.get("err"):
        return None
    if k in ("c02.curve2", "c02.curve3"):
        if len(r["points"]) > 70:
            return None                     # the oracle still scans these; the in-Coq scan is kept small
        qs = [(T(q), T(o["p"]), int(o["index"]), o["fraction"], o["dist"]) for q, o in zip(c["qs"], r["out"])]
        return "check_%s %s %s" % (k[4:], coq([T(p) for p in r["points"]]), coq(qs))
    if k == "c02.mesh":
        if len(c["faces"]) > 45:
            return None
        qs = [(T(q), T(o["closest"]), o["max"] is not None) for q, o in zip(c["qs"], r["out"])]
        return "check_mesh %s %s %s %s" % (coq([T(p) for p in c["verts"]]), coq([tuple(int(i) for i in f) for f in c["faces"]]), coq(c["max_dist"]), coq(qs))
    return None


# ------------------------------------------------------------------ exhaustive oracles

def seg_closest(q, a, b):
    v = [y - x for x, y in zip(a, b)]
    w = [y - x for x, y in zip(a, q)]
    vv = sum(x * x for x in v)
    t = 0.0 if vv == 0 else max(0.0, min(1.0, sum(x * y for x, y in zip(v, w)) / vv))
    return [x + t * y for x, y in zip(a, v)]


def cross(a, b):
    return [a[1] * b[2] - a[2] * b[1], a[2] * b[0] - a[0] * b[2], a[0] * b[1] - a[1] * b[0]]


def dot(a, b):
    return sum(x * y for x, y in zip(a, b))


def sub(a, b):
    return [x - y for x, y in zip(a, b)]


def tri_dist(q, a, b, c):
    n = cross(sub(b, a), sub(c, a))
    nn = dot(n, n)
    best = min(math.dist(q, seg_closest(q, a, b)), math.dist(q, seg_closest(q, b, c)), math.dist(q, seg_closest(q, c, a)))
    if nn > 0:
        s = dot(sub(q, a), n) / nn
        p = [x - s * y for x, y in zip(q, n)]
        if dot(cross(sub(b, a), sub(p, a)), n) >= 0 and dot(cross(sub(c, b), sub(p, b)), n) >= 0 and dot(cross(sub(a, c), sub(p, c)), n) >= 0:
            best = min(best, math.dist(q, p))
    return best


def on_tri(p, a, b, c, tol):
    return abs(tri_dist(p, a, b, c)) <= tol


NO_NORMAL = 2.220446049250313e-16


def oracle(c, r):
    k = c["k"]
    if r.get("err"):
        return
    if k in ("c02.curve2", "c02.curve3"):
        pts, lens = r["points"], r["lengths"]
        scale = max(1.0, max(abs(x) for p in pts for x in p))
        for q, o in zip(c["qs"], r["out"]):
            qs = max(scale, max(abs(x) for x in q))
            best = min(math.dist(q, seg_closest(q, a, b)) for a, b in zip(pts, pts[1:]))
            what = "closest point to %r on a %dD polyline of %d vertices" % (q, len(q), len(pts))
            if abs(o["dist"] - best) > 1e-9 * qs:
                yield ("curve-not-nearest", what + ": reported distance %r, exhaustive minimum %r" % (o["dist"], best))
                break
            if abs(math.dist(q, o["p"]) - o["dist"]) > 1e-9 * qs:
                yield ("curve-distance-point", what + ": reported point %r is %r away, reported distance %r" % (o["p"], math.dist(q, o["p"]), o["dist"]))
                break
            i, f = o["index"], o["fraction"]
            if not (0 <= i < len(pts) - 1) or not (-1e-12 <= f <= 1 + 1e-12):
                yield ("curve-station", what + ": index %r fraction %r out of range" % (i, f))
                break
            rep = [a + f * (b - a) for a, b in zip(pts[i], pts[i + 1])]
            if math.dist(rep, o["p"]) > 1e-9 * qs:
                yield ("curve-station", what + ": edge %d at fraction %r is %r, reported point %r" % (i, f, rep, o["p"]))
                break
            la = lens[i] + f * (lens[i + 1] - lens[i])
            if abs(la - o["length_along"]) > 1e-9 * max(1.0, lens[-1]):
                yield ("curve-station", what + ": length_along %r, index/fraction give %r" % (o["length_along"], la))
                break
            e = sub(pts[i + 1], pts[i])
            ne = math.sqrt(dot(e, e))
            if ne > 0 and math.dist([x / ne for x in e], o["dir"]) > 1e-9:
                yield ("curve-direction", what + ": direction %r is not the direction of edge %d" % (o["dir"], i))
                break
    elif k == "c02.mesh":
        verts, faces = c["verts"], c["faces"]
        tris = [(verts[f[0]], verts[f[1]], verts[f[2]]) for f in faces]
        scale = max(1.0, max(abs(x) for p in verts for x in p))
        md, ma = c["max_dist"], c["max_angle"]
        expect_in_tol = []
        border = set()          # queries whose filtered answer is within rounding of a threshold
        for qi, (q, o) in enumerate(zip(c["qs"], r["out"])):
            qs = max(scale, max(abs(x) for x in q))
            what = "closest point to %r on a mesh of %d faces" % (q, len(faces))
            best = min(tri_dist(q, *t) for t in tris)
            p = o["closest"]
            if any(math.isnan(x) for x in p):
                yield ("mesh-point-panic", what + ": point_closest_to panicked")
                continue
            if o["surf"].get("panic"):
                # a surface point needs a normal: when the nearest face has none (zero area, or legs of 1e-8) surf_closest_to unwraps None
                near = min(range(len(tris)), key=lambda i: tri_dist(q, *tris[i]))
                a, b, cc = tris[near]
                cr = cross([y - x for x, y in zip(a, b)], [y - x for x, y in zip(a, cc)])
                if math.sqrt(dot(cr, cr)) <= 2.3e-16:
                    yield ("surf-closest-degenerate-face", what + ": surf_closest_to panicked; the nearest face %r has no normal" % (tris[near],))
                else:
                    yield ("mesh-panic", what + ": surf_closest_to panicked")
                d = math.dist(q, p)
                if abs(d - best) > 1e-9 * qs:
                    yield ("mesh-not-nearest", what + ": point_closest_to reports a point at distance %r, exhaustive minimum %r" % (d, best))
                continue
            d = math.dist(q, p)
            if abs(d - best) > 1e-9 * qs:
                yield ("mesh-not-nearest", what + ": reported point at distance %r, exhaustive minimum %r" % (d, best))
                break
            if min(tri_dist(p, *t) for t in tris) > 1e-9 * qs:
                yield ("mesh-off-surface", what + ": reported point %r is not on the mesh" % (p,))
                break
            dv = o.get("dev")
            if dv is not None:
                if dv.get("panic"):
                    yield ("mesh-deviation", what + ": measure_point_deviation panicked")
                elif abs(abs(dv["value"]) - best) > 1e-6 + 1e-9 * qs:
                    yield ("mesh-deviation", what + ": the point-mode deviation reports %r, the distance to the mesh is %r" % (dv["value"], best))
                elif best > 2e-6 and math.dist([dv["a"][i] + dv["dir"][i] * dv["value"] for i in range(3)], q) > 1e-8 * qs:
                    yield ("mesh-deviation", what + ": reference %r + direction %r * value %r does not give back the query" % (dv["a"], dv["dir"], dv["value"]))
            sp = o["surf"]
            if math.dist(sp["p"], p) > 1e-12 * qs:
                yield ("mesh-surf-point", what + ": surf_closest_to point %r vs point_closest_to %r" % (sp["p"], p))
            # the normal is the normal of a face that contains the reported point
            ok = False
            for t, raw in zip(tris, r["raw_normals"]):
                nn = math.sqrt(dot(raw, raw))
                if nn > 2.3e-16 and on_tri(p, t[0], t[1], t[2], 1e-9 * qs) and math.dist([x / nn for x in raw], sp["n"]) < 1e-9:
                    ok = True
                    break
                # a face without area has no normal of its own: any unit vector is accepted for a closest point on it
                if nn <= 2.3e-16 and tri_dist(p, *t) <= 1e-9 * qs and abs(math.sqrt(dot(sp["n"], sp["n"])) - 1) < 1e-9:
                    ok = True
                    break
            if not ok:
                yield ("mesh-normal", what + ": normal %r is not the normal of a face containing the closest point" % (sp["n"],))
                break
            # distance cap: a result exactly when the true distance is within the cap
            near_cap = abs(best - md) <= 1e-9 * qs
            if abs(best - md) <= 1e-6 * qs or best <= 1e-6 * qs:
                border.add(qi)
            if not near_cap and (o["max"] is not None) != (best <= md):
                yield ("mesh-cap", what + ": true distance %r, cap %r, capped query %s" % (best, md, "answered" if o["max"] else "gave nothing"))
                break
            if o["max"] is not None:
                m = o["max"]
                f = faces[m["id"]]
                t = tris[m["id"]]
                if not on_tri(m["p"], t[0], t[1], t[2], 1e-9 * qs):
                    yield ("mesh-face-id", what + ": point %r is not on the reported face %d" % (m["p"], m["id"]))
                    break
                loc = m["loc"]
                rep = None
                if loc["kind"] == "face":
                    rep = [sum(loc["bc"][kk] * t[kk][j] for kk in range(3)) for j in range(3)]
                elif loc["kind"] == "edge":
                    # parry's convention: edge 0 = (a, b), edge 1 = (b, c), edge 2 = (a, c)
                    e0, e1 = [(t[0], t[1]), (t[1], t[2]), (t[0], t[2])][loc["i"]]
                    rep = [loc["bc"][0] * a + loc["bc"][1] * b for a, b in zip(e0, e1)]
                elif loc["kind"] == "vertex":
                    rep = list(t[loc["i"]])
                if rep is not None and math.dist(rep, m["p"]) > 1e-9 * qs:
                    yield ("mesh-barycentric", what + ": location %r reproduces %r, reported point %r" % (loc, rep, m["p"]))
                    break
            # angle filter
            if o["max"] is not None and not near_cap:
                m = o["max"]
                raw = r["raw_normals"][m["id"]]
                local = sub(q, m["p"])
                nl, nr = math.sqrt(dot(local, local)), math.sqrt(dot(raw, raw))
                # a face whose scaled normal is within f64::EPSILON of zero has no normal (parry's Triangle::normal): the clause speaks
                # of the angle to the face normal, so it says nothing there (engeom rejects such points)
                if nl > 1e-9 * qs and nr > NO_NORMAL:
                    ang = math.acos(max(-1.0, min(1.0, dot(local, raw) / (nl * nr))))
                    accept = ang < ma or ang > math.pi - ma
                    marg = min(abs(ang - ma), abs(ang - (math.pi - ma)))
                    if marg <= 1e-5:
                        border.add(qi)
                    if marg > 1e-6:
                        if (o["tol"] is not None) != accept:
                            yield ("mesh-angle-filter", what + ": offset makes %r rad with the face normal, limit %r, filtered query %s" % (ang, ma, "accepted" if o["tol"] else "rejected"))
                            break
                        if accept:
                            expect_in_tol.append(qi)
                    elif o["tol"] is not None:
                        expect_in_tol.append(qi)
                elif nl == 0.0 and nr > NO_NORMAL and ma > 0 and o["tol"] is None:
                    # a query that IS its projection has no offset at all: it is within any positive angle of the normal
                    yield ("mesh-angle-on-surface", what + ": the query lies exactly on the surface (zero offset) and is within the distance cap, but the angle-filtered query (limit %r) rejects it" % ma)
                    break
                elif o["tol"] is not None:
                    expect_in_tol.append(qi)
            elif o["tol"] is not None:
                expect_in_tol.append(qi)
            if (o["tol"] is None) != (o["tol_id"] is None):
                yield ("mesh-tol-transform", what + ": identity transform changes the filtered answer")
        else:
            if sorted(expect_in_tol) != sorted(r["in_tol"]):
                yield ("mesh-indices-in-tol", "indices_in_tol %r, per-point answers %r" % (r["in_tol"], expect_in_tol))
            fr = r.get("in_tol_frame")
            if fr is not None:
                diff = (set(fr) ^ set(r["in_tol"])) - border
                if diff:
                    yield ("mesh-indices-frame", "indices_in_tol of the cloud given in the frame %r with its transform is %r, in the mesh's own frame %r (queries %r differ and are not within rounding of a threshold)" % (
                        c["frame"], fr, r["in_tol"], sorted(diff)))
