"""C20  Conformal flattening is an isometry on planar disks and never folds them."""
import math
import common as C
from common import Some, Nat, Raw, opt, coq

LEVEL = "proof"
COQ_IMPORTS = ["Tie.C20"]
RULE = ("planar disks: jittered grids (2x2..7x7), fans, strips, L-shaped (non-convex) outlines, with scrambled vertex numbering, in arbitrary 3D "
        "pose and scale 0.1..100; curved disks (paraboloid caps) for invariance under rigid motion; rejection inputs: closed boxes, a torus with a face removed (alone and together with a closed box), two fans touching at a vertex, a disk together with a closed box, annuli (two "
        "boundary loops), two components, non-manifold fins; UV maps: planar and sheared parametrisations with interior, edge and vertex "
        "barycentric queries. distinct = distinct (tag, input)")
TRUSTED_BASE = [
    "Coq 8.16.1 kernel and vm_compute",
    "hand-written model coq/Model/Flatten.v of engeom's UV bookkeeping: UvMapping::point / triangle (barycentric map and its inverse) tied by differential correspondence Tie/C20.v (check_uv)",
    "hand-written model coq/Model/Conformal.v of engeom's arithmetic upstream of the sparse solver (face angles, angle defects, cotangent weights, diagonals, triplets with the regulariser, boundary lengths and masses, cumulative sums), tied by differential correspondence (check_internals) through the hook conformal_verif (commit 6add97f) on the edge table the implementation built (identify_edges: C12)",
    "the flattening certificate (every edge length kept, every triangle positively oriented before and after) is evaluated in Coq at binary64 (check_cert, relative tolerance 1e-6) on every accepted planar disk; Proofs/Congruent.v proves that the exact certificate is equivalent to one proper rigid motion carrying the edge-connected mesh onto its layout",
    "the sparse LU (faer), the best-fit boundary curve and the extension step are NOT modelled: their effect is certified per case (certificate above; invariance under rigid motion of the input; rejection of non-disks)",
]
ASSUMPTIONS = [
    "that boundary-first flattening reproduces every planar disk is NOT proved end to end; proved: the face angles are the geometric angles, the assembled matrix is a symmetric graph Laplacian plus 1e-8 whose rows annihilate (up to the regulariser) both coordinate functions of a planar mesh at every vertex with a closed positively oriented fan - the interior equations of the flattening are solved by the layout that reproduces the mesh; the boundary step is validated per explored mesh",
    "edge lengths are compared with relative tolerance 1e-6 (the regulariser 1e-8 in the Laplacian makes the result approximate)",
    "cases with a face angle within 0.05 of 0 or pi are not compared by check_internals (the cotangent amplifies rounding beyond a fixed tolerance): counted as ambiguous",
]


def rot_matrix(aa):
    th = math.sqrt(sum(x * x for x in aa))
    if th == 0:
        return [[1, 0, 0], [0, 1, 0], [0, 0, 1]]
    k = [x / th for x in aa]
    c, s = math.cos(th), math.sin(th)
    K = [[0, -k[2], k[1]], [k[2], 0, -k[0]], [-k[1], k[0], 0]]
    return [[(1 if i == j else 0) * c + s * K[i][j] + (1 - c) * k[i] * k[j] for j in range(3)] for i in range(3)]


def pose(rng, verts, aa=None, t=None):
    aa = aa or [rng.uniform(-2, 2) for _ in range(3)]
    t = t or [rng.uniform(-5, 5) for _ in range(3)]
    R = rot_matrix(aa)
    return [[sum(R[i][j] * v[j] for j in range(3)) + t[i] for i in range(3)] for v in verts]


def grid(rng, m, n, jitter=0.25, keep=None):
    pts = [[i + rng.uniform(-jitter, jitter), j + rng.uniform(-jitter, jitter)] for j in range(n + 1) for i in range(m + 1)]
    faces = []
    for j in range(n):
        for i in range(m):
            if keep is not None and not keep(i, j):
                continue
            a = j * (m + 1) + i
            if rng.random() < 0.5:
                faces += [[a, a + 1, a + m + 2], [a, a + m + 2, a + m + 1]]
            else:
                faces += [[a, a + 1, a + m + 1], [a + 1, a + m + 2, a + m + 1]]
    return pts, faces


def compact(pts, faces):
    used = sorted(set(i for f in faces for i in f))
    idx = {v: k for k, v in enumerate(used)}
    return [pts[v] for v in used], [[idx[i] for i in f] for f in faces]


def scramble(rng, pts, faces):
    perm = list(range(len(pts)))
    rng.shuffle(perm)
    inv = [0] * len(perm)
    for new, old in enumerate(perm):
        inv[old] = new
    faces = [[inv[i] for i in f] for f in faces]
    rng.shuffle(faces)
    return [pts[old] for old in perm], faces


def planar_disk(rng):
    kind = rng.choice(["grid", "grid", "fan", "strip", "lshape"])
    if kind == "grid":
        m = rng.choice([2, 3, 5, 7])
        p2, f = grid(rng, m, rng.choice([2, 3, m]))
    elif kind == "fan":
        n = rng.choice([5, 8, 12])
        p2 = [[0.0, 0.0]] + [[(1 + rng.uniform(-0.2, 0.2)) * math.cos(2 * math.pi * i / n), (1 + rng.uniform(-0.2, 0.2)) * math.sin(2 * math.pi * i / n)] for i in range(n)]
        f = [[0, 1 + i, 1 + (i + 1) % n] for i in range(n)]
    elif kind == "strip":
        p2, f = grid(rng, rng.choice([4, 8]), 1)
    else:
        p2, f = grid(rng, 4, 4, keep=lambda i, j: not (i >= 2 and j >= 2))
        p2, f = compact(p2, f)
    s = rng.choice([1e-6, 1e-3, 0.1, 1.0, 1.0, 100.0, 1e4])      # the unit is the user's: micrometres to kilometres
    p2 = [[x * s, y * s] for x, y in p2]
    p2, f = scramble(rng, p2, f)
    planar_disk.scale = s
    return p2, f, kind


def gen_flatten(rng):
    r = rng.random()
    aa = [rng.uniform(-2, 2) for _ in range(3)]
    t = [rng.uniform(-5, 5) for _ in range(3)]
    if r < 0.6:
        p2, f, kind = planar_disk(rng)
        verts = pose(rng, [[x, y, 0.0] for x, y in p2], aa, t)
        return {"k": "c20.flatten", "verts": verts, "faces": f, "kind": "planar:" + kind, "flat": p2, "expect": "ok"}
    if r < 0.75:
        p2, f, kind = planar_disk(rng)
        cap = [[x, y, 0.05 * (x * x + y * y) / planar_disk.scale] for x, y in p2]      # gently curved at every scale
        return {"k": "c20.flatten", "verts": cap, "faces": f, "kind": "curved:" + kind, "flat": None, "expect": "ok", "moved": pose(rng, cap, aa, t)}
    kind = rng.choice(["box", "annulus", "two", "fin", "bowtie", "bowtie", "disk+box", "holedtorus+box", "holedtorus"])
    if kind == "box":
        verts = [[float(i & 1), float((i >> 1) & 1), float((i >> 2) & 1)] for i in range(8)]
        f = [[0, 2, 1], [1, 2, 3], [4, 5, 6], [5, 7, 6], [0, 1, 4], [1, 5, 4], [2, 6, 3], [3, 6, 7], [0, 4, 2], [2, 4, 6], [1, 3, 5], [3, 7, 5]]
    elif kind == "annulus":
        p2, f = grid(rng, 3, 3, jitter=0.1, keep=lambda i, j: not (i == 1 and j == 1))
        verts = [[x, y, 0.0] for x, y in p2]
    elif kind == "two":
        p2, f = grid(rng, 2, 2, jitter=0.1)
        q2, g = grid(rng, 2, 2, jitter=0.1)
        verts = [[x, y, 0.0] for x, y in p2] + [[x + 10, y, 0.0] for x, y in q2]
        f = f + [[a + len(p2) for a in ff] for ff in g]
    elif kind == "bowtie":
        # two fans that touch only at vertex 0: one boundary walk through that vertex twice, not a disk
        k = rng.choice([1, 2, 4])
        verts, f = [[0.0, 0.0, 0.0]], []
        for a0, a1 in ((math.radians(120), math.radians(240)), (math.radians(-60), math.radians(60))):
            idx = []
            for i in range(k + 1):
                a = a0 + (a1 - a0) * i / k
                verts.append([math.cos(a), math.sin(a), 0.0])
                idx.append(len(verts) - 1)
            f += [[0, idx[i], idx[i + 1]] for i in range(k)]
        rng.shuffle(f)
    elif kind in ("holedtorus+box", "holedtorus"):
        # a torus with one face removed (Euler characteristic -1, one simple boundary loop), alone or together with a
        # closed box (+2): the characteristic of the union is 1 although nothing here is a disk
        n, m = rng.choice([(4, 3), (6, 5), (5, 4)])
        verts = [[(3 + math.cos(2 * math.pi * j / m)) * math.cos(2 * math.pi * i / n), (3 + math.cos(2 * math.pi * j / m)) * math.sin(2 * math.pi * i / n),
                  math.sin(2 * math.pi * j / m)] for i in range(n) for j in range(m)]
        f = []
        for i in range(n):
            for j in range(m):
                a, b, c2, d = i * m + j, ((i + 1) % n) * m + j, ((i + 1) % n) * m + (j + 1) % m, i * m + (j + 1) % m
                f += [[a, b, c2], [a, c2, d]]
        del f[rng.randrange(len(f))]
        if kind == "holedtorus+box":
            n0 = len(verts)
            verts += [[10.0 + float(i & 1), float((i >> 1) & 1), float((i >> 2) & 1)] for i in range(8)]
            f = f + [[a + n0 for a in ff] for ff in [[0, 2, 1], [1, 2, 3], [4, 5, 6], [5, 7, 6], [0, 1, 4], [1, 5, 4], [2, 6, 3], [3, 6, 7], [0, 4, 2], [2, 4, 6], [1, 3, 5], [3, 7, 5]]]
        rng.shuffle(f)
    elif kind == "disk+box":
        # a disk and a closed box: a single boundary loop, but not a disk
        p2, f = grid(rng, 2, 2, jitter=0.1)
        verts = [[x, y, 0.0] for x, y in p2]
        n0 = len(verts)
        verts += [[10.0 + float(i & 1), float((i >> 1) & 1), float((i >> 2) & 1)] for i in range(8)]
        f = f + [[a + n0 for a in ff] for ff in [[0, 2, 1], [1, 2, 3], [4, 5, 6], [5, 7, 6], [0, 1, 4], [1, 5, 4], [2, 6, 3], [3, 6, 7], [0, 4, 2], [2, 4, 6], [1, 3, 5], [3, 7, 5]]]
    else:
        verts = [[0.0, 0.0, 0.0], [1.0, 0.0, 0.0], [0.0, 1.0, 0.0], [1.0, 1.0, 0.0], [0.5, 0.5, 1.0]]
        f = [[0, 1, 2], [1, 3, 2], [1, 2, 4]]
    return {"k": "c20.flatten", "verts": pose(rng, verts, aa, t), "faces": f, "kind": "reject:" + kind, "flat": None, "expect": "err"}


def gen_uv(rng):
    p2, f, kind = planar_disk(rng)
    verts = pose(rng, [[x, y, 0.0] for x, y in p2])
    sh = rng.choice([0.0, 0.3])
    flip = rng.choice([1.0, 1.0, -1.0])      # a layout with the v axis pointing down (image coordinates): every UV triangle is clockwise
    uvs = [[x + sh * y + 2.0, flip * 0.8 * y - 1.0] for x, y in p2]
    qs = []
    for _ in range(6):
        i = rng.randrange(len(f))
        r = rng.random()
        if r < 0.6:
            w = [rng.uniform(0.05, 1) for _ in range(3)]
        elif r < 0.8:
            w = [rng.random(), rng.random(), 0.0]
            rng.shuffle(w)
        else:
            w = [1.0, 0.0, 0.0]
            rng.shuffle(w)
        sw = sum(w)
        qs.append([i] + [x / sw for x in w])
    fr = [rng.uniform(-10, 10) for _ in range(3)] + [rng.uniform(-2, 2) for _ in range(3)]
    return {"k": "c20.uv", "verts": verts, "faces": f, "uvs": uvs, "queries": qs, "kind": kind, "frame": rng.choice([fr, fr, [0.0] * 6])}


def gen_internals(rng):
    p2, f, kind = planar_disk(rng)
    if rng.random() < 0.6:
        verts = pose(rng, [[x, y, 0.0] for x, y in p2])
        return {"k": "c20.internals", "verts": verts, "faces": f, "kind": "planar:" + kind, "flat": p2}
    cap = [[x, y, 0.05 * (x * x + y * y) / planar_disk.scale] for x, y in p2]
    return {"k": "c20.internals", "verts": pose(rng, cap), "faces": f, "kind": "curved:" + kind, "flat": None}


def corpus():
    yield {"k": "c20.uv", "verts": [[0.0, 0.0, 0.0], [1.0, 0.0, 0.0], [0.0, 1.0, 0.0]], "faces": [[0, 1, 2]], "uvs": [[0.0, 0.0], [1.0, 0.0], [0.0, 1.0]],
           "queries": [[0, 0.25, 0.25, 0.5]], "kind": "corpus"}       # D20 witness: an interior point


def generate(rng, tier):
    n = 120 if tier == "quick" else 1500
    return [gen_flatten(rng) for _ in range(n)] + [gen_uv(rng) for _ in range(n // 2)] + [gen_internals(rng) for _ in range(n // 2)]


def tag(c, r):
    return "%s:%s" % (c["k"], c["kind"])


def T(p):
    return tuple(float(x) for x in p)


def coq_check(c, r):
    if c["k"] == "c20.internals":
        if "angles" not in r:
            return None
        I = lambda l: [tuple(int(i) for i in e) for e in l]
        return "check_internals %s %s %s %s %s %s %s %s %s %s %s %s" % (
            coq([T(p) for p in c["verts"]]), coq(I(c["faces"])), coq(I(r["edges"])), coq(I(r["face_edges"])), coq([int(i) for i in r["bound"]]),
            coq(list(r["edge_lengths"])), coq([T(a) for a in r["angles"]]), coq(list(r["defects"])), coq([(int(t[0]), int(t[1]), float(t[2])) for t in r["triplets"]]),
            coq(list(r["blen"])), coq(list(r["bmass"])), coq(list(r["cumsum"])))
    if c["k"] == "c20.flatten" and c.get("flat") and r.get("uv") and len(r["uv"]) == len(c["flat"]):
        scale = max(math.dist(c["flat"][a], c["flat"][b]) for f in c["faces"] for a, b in ((f[0], f[1]), (f[1], f[2]), (f[2], f[0])))
        return "check_cert %s %s %s %s" % (coq([T(q) for q in c["flat"]]), coq([T(q) for q in r["uv"]]), coq([tuple(int(i) for i in f) for f in c["faces"]]), coq(float(scale)))
    if c["k"] != "c20.uv" or r.get("err"):
        return None
    obs = []
    for q, o in zip(c["queries"], r["out"]):
        if not isinstance(o["tri"], dict) or o["tri"].get("panic"):
            return None
        obs.append((int(q[0]), (q[1], q[2], q[3]), T(o["uv"]), int(o["tri"]["id"]), T(o["tri"]["bc"])))
    return "check_uv %s %s %s" % (coq([T(p) for p in c["uvs"]]), coq([tuple(int(i) for i in f) for f in c["faces"]]), coq(obs))


# ------------------------------------------------------------------ certificates

def flatten_certificate(verts, faces, uv, what):
    scale = max(math.dist(verts[a], verts[b]) for f in faces for a, b in ((f[0], f[1]), (f[1], f[2]), (f[2], f[0])))
    if len(uv) != len(verts) or any(not math.isfinite(x) for p in uv for x in p):
        yield ("flatten-finite", what + ": %d positions for %d vertices / non-finite values" % (len(uv), len(verts)))
        return
    worst = 0.0
    for f in faces:
        for a, b in ((f[0], f[1]), (f[1], f[2]), (f[2], f[0])):
            worst = max(worst, abs(math.dist(uv[a], uv[b]) - math.dist(verts[a], verts[b])))
    if worst > 1e-6 * scale:
        yield ("flatten-isometry", what + ": an edge length changes by %r (longest edge %r)" % (worst, scale))
    # orientation: all triangles the same way round (the planar disk's faces are consistently wound in its own plane)
    signs = []
    for f in faces:
        a, b, c = uv[f[0]], uv[f[1]], uv[f[2]]
        signs.append((b[0] - a[0]) * (c[1] - a[1]) - (b[1] - a[1]) * (c[0] - a[0]))
    if not (all(s > 0 for s in signs) or all(s < 0 for s in signs)):
        yield ("flatten-fold", what + ": %d of %d triangles are flipped" % (min(sum(1 for s in signs if s > 0), sum(1 for s in signs if s <= 0)), len(signs)))
    elif signs and signs[0] < 0:
        yield ("flatten-orientation", what + ": every triangle has negative orientation")


def oracle(c, r):
    k = c["k"]
    if k == "c20.flatten":
        what = "boundary_first_flatten of a %s mesh (%d vertices, %d faces)" % (c["kind"], len(c["verts"]), len(c["faces"]))
        if r.get("panic"):
            yield ("flatten-panic", what + " panicked")
            return
        if c["expect"] == "err":
            if not (r.get("err") or r.get("edges_err")):
                yield ("flatten-accepts-non-disk", what + ": returned a layout for a mesh that is not a single-boundary disk")
            return
        if r.get("err") or r.get("edges_err"):
            yield ("flatten-rejects-disk", what + ": rejected a disk (boundary loops found: %r)" % r.get("loops"))
            return
        if c["kind"].startswith("planar"):
            yield from flatten_certificate(c["verts"], c["faces"], r["uv"], what)
        else:
            # a curved disk cannot keep every length; the layout depends only on connectivity and edge lengths:
            # the same input after a rigid motion must give the same layout up to a planar rigid motion
            uv, mv = r["uv"], r.get("moved")
            if any(not math.isfinite(x) for p in uv for x in p):
                yield ("flatten-finite", what + ": non-finite positions")
            elif isinstance(mv, dict) or mv is None:
                yield ("flatten-invariant", what + ": the rigidly moved copy was rejected")
            else:
                scale = max(math.dist(uv[a], uv[b]) for f in c["faces"] for a, b in ((f[0], f[1]), (f[1], f[2]), (f[2], f[0])))
                worst = max(abs(math.dist(uv[a], uv[b]) - math.dist(mv[a], mv[b])) for f in c["faces"] for a in f for b in f)
                if worst > 1e-6 * scale:
                    yield ("flatten-invariant", what + ": after a rigid motion of the input a layout distance changes by %r (scale %r)" % (worst, scale))
                sg = lambda L, f: (L[f[1]][0] - L[f[0]][0]) * (L[f[2]][1] - L[f[0]][1]) - (L[f[1]][1] - L[f[0]][1]) * (L[f[2]][0] - L[f[0]][0])
                if any((sg(uv, f) > 0) != (sg(mv, f) > 0) for f in c["faces"]):
                    yield ("flatten-invariant", what + ": the layouts differ by a reflection")
    elif k == "c20.internals":
        what = "flattening internals of a %s mesh (%d vertices, %d faces)" % (c["kind"], len(c["verts"]), len(c["faces"]))
        if r.get("panic") or "angles" not in r:
            yield ("internals-failed", what + ": %r" % ({kk: v for kk, v in r.items() if kk in ("panic", "edges_err", "loops")},))
            return
        V, F = c["verts"], c["faces"]
        n = len(V)
        sub = lambda a, b: [x - y for x, y in zip(a, b)]
        dot = lambda a, b: sum(x * y for x, y in zip(a, b))
        # 1. the face angles are the geometric angles (computed here from dot products, not from the law of cosines)
        for fi, (f, ang) in enumerate(zip(F, r["angles"])):
            for kk in range(3):
                u, v = sub(V[f[(kk + 1) % 3]], V[f[kk]]), sub(V[f[(kk + 2) % 3]], V[f[kk]])
                want = math.acos(max(-1.0, min(1.0, dot(u, v) / math.sqrt(dot(u, u) * dot(v, v)))))
                if abs(ang[kk] - want) > 1e-7:
                    yield ("face-angle", what + ": face %d %r angle %d is %r, the angle of the triangle at that vertex is %r" % (fi, f, kk, ang[kk], want))
                    return
        # 2. angle defects: on a planar mesh every interior vertex has none; on any disk they add up to 2 pi minus (pi per boundary vertex turned) = 2 pi chi - pi |boundary| ...
        bset = set(int(i) for i in r["bound"])
        if c["kind"].startswith("planar"):
            for v in range(n):
                if v not in bset and abs(r["defects"][v]) > 1e-7:
                    yield ("angle-defect", what + ": interior vertex %d of a planar mesh has angle defect %r" % (v, r["defects"][v]))
                    return
            tot = sum(r["defects"][v] for v in bset)
            if abs(tot - 2 * math.pi) > 1e-6:
                yield ("angle-defect", what + ": the boundary turning angles of a planar disk add up to %r, not 2 pi" % tot)
        # 3. the matrix: symmetric, rows add up to the regulariser, and on a planar mesh interior rows map the coordinates to eps * coordinate
        M = {}
        for a, b, v in r["triplets"]:
            M[(int(a), int(b))] = M.get((int(a), int(b)), 0.0) + v
        big = max(abs(v) for v in M.values())
        for (a, b), v in M.items():
            if abs(M.get((b, a), 0.0) - v) > 1e-12 * big:
                yield ("laplacian-symmetric", what + ": entry (%d,%d) = %r but (%d,%d) = %r" % (a, b, v, b, a, M.get((b, a))))
                return
        for i in range(n):
            rs = sum(v for (a, b), v in M.items() if a == i)
            if abs(rs - 1e-8) > 1e-9 * big:
                yield ("laplacian-row-sum", what + ": row %d adds up to %r, not to the regulariser 1e-8" % (i, rs))
                return
        if c["kind"].startswith("planar"):
            P = c["flat"]
            sc = max(abs(x) for q in P for x in q)
            for i in range(n):
                if i in bset:
                    continue
                for d in range(2):
                    val = sum(v * P[b][d] for (a, b), v in M.items() if a == i)
                    if abs(val - 1e-8 * P[i][d]) > 1e-9 * big * sc:
                        yield ("laplacian-harmonic", what + ": row %d applied to coordinate %d of the planar positions gives %r, not eps * %r" % (i, d, val, P[i][d]))
                        return
        # 4. boundary lengths and vertex masses
        ib = [int(i) for i in r["bound"]]
        for kk in range(len(ib)):
            want = math.dist(V[ib[kk]], V[ib[(kk + 1) % len(ib)]])
            if abs(r["blen"][kk] - want) > 1e-9 * max(1.0, want):
                yield ("boundary-length", what + ": boundary edge %d has length %r, computed %r" % (kk, want, r["blen"][kk]))
                return
            m = (r["blen"][kk - 1] + r["blen"][kk]) / 2
            if abs(r["bmass"][kk] - m) > 1e-9 * max(1.0, m):
                yield ("boundary-mass", what + ": boundary vertex %d has mass %r, half its two edges is %r" % (kk, r["bmass"][kk], m))
                return
    elif k == "c20.uv":
        if r.get("err"):
            return
        uvs, verts, faces = c["uvs"], c["verts"], c["faces"]
        scale = max(1.0, max(abs(x) for p in uvs for x in p))
        ap = r.get("append")
        if ap:
            for nm, sfx in (("a mapped mesh after append of an unmapped piece", ""), ("an unmapped mesh after append of a mapped one", "_rev")):
                uf, nf = ap["uv_faces" + sfx], ap["faces" + sfx]
                if uf is not None and uf != nf:
                    yield ("uv-append", "%s (append %s) carries a UV map of %d triangles for %d faces" % (nm, "succeeded" if ap["ok" + sfx] else "failed", uf, nf))
            if ap["uv_faces"] is not None:
                sc3 = max(1.0, max(abs(x) for p in verts for x in p))
                for nm, src in (("near_trip", ap["q0"]), ("far_trip", ap["far"])):
                    v = ap[nm]
                    if isinstance(v, dict):
                        yield ("uv-append", "after append onto a mapped mesh, the round trip of %r through UV panicked" % (src,))
                    elif nm == "near_trip" and (v is None or math.dist(v, src) > 1e-6 * sc3):
                        yield ("uv-append", "after append onto a mapped mesh, the surface point %r round-trips through UV to %r" % (src, v))
        for q, o in zip(c["queries"], r["out"]):
            what = "UV map of %d faces, face %d barycentric %r" % (len(faces), q[0], q[1:])
            if isinstance(o["tri"], dict) and o["tri"].get("panic"):
                yield ("uv-panic", what + ": UvMapping::triangle panicked")
                return
            if o["uv_back"] is None:
                yield ("uv-roundtrip", what + ": no triangle found for a point of the map")
                return
            if math.dist(o["uv_back"], o["uv"]) > 1e-9 * scale:
                yield ("uv-roundtrip", what + ": uv %r maps to triangle %r and back to %r" % (o["uv"], o["tri"], o["uv_back"]))
                return
            if o["to3"] is None or math.dist(o["to3"], o["p3"]) > 1e-9 * max(1.0, max(abs(x) for x in o["p3"])):
                yield ("uv-to-3d", what + ": surface point %r -> uv %r -> 3D %r" % (o["p3"], o["uv"], o["to3"]))
                return
            if o["from3"] is None or math.dist(o["from3"][0], o["uv"]) > 1e-9 * scale or abs(o["from3"][1]) > 1e-9:
                yield ("uv-from-3d", what + ": surface point %r -> uv %r (depth %r), expected %r" % (o["p3"], None if o["from3"] is None else o["from3"][0], None if o["from3"] is None else o["from3"][1], o["uv"]))
                return
            ft = o.get("from3_t")
            if ft is not None:
                # the query expressed in another frame, with the transform into the mesh's frame: same answer
                slack = 1e-7 * max(1.0, scale, max(abs(x) for x in c["frame"][:3]))
                if ft["r"] is None or math.dist(ft["r"][0], o["uv"]) > slack or abs(ft["r"][1]) > slack:
                    yield ("uv-from-3d-frame", what + ": surface point %r given in the frame %r with its transform -> uv %r, expected %r" % (
                        o["p3"], c["frame"], None if ft["r"] is None else ft["r"], o["uv"]))
                    return
