"""C15  Spatial search, sampling and hulls agree with exhaustive computation."""
import math
import common as C
from common import Some, Nat, Raw, opt, coq

LEVEL = "proof"
COQ_IMPORTS = ["Tie.C15"]
RULE = ("2D/3D point sets of 1..400 points: uniform, clustered, gridded (many equal distances), with duplicates; queries at data points, "
        "between them and far away; k from 1 to beyond the set size; radii from below the smallest gap to the whole set (never within rounding "
        "of a pairwise distance); partial trees over random index subsets; Poisson working orders: identity, reversed, shuffled, subsets; "
        "meshes: boxes, single triangles, slivers, soups; hull inputs: random, collinear runs, duplicates, circles. distinct = distinct (tag, input)")
TRUSTED_BASE = [
    "Coq 8.16.1 kernel and vm_compute",
    "hand-written brute-force specifications coq/Model/Spatial.v, tied by differential correspondence Tie/C15.v: every reported (index, distance) pair is checked against the point at that index, nearest/k-nearest/radius results against the exhaustive scan, the Poisson selection against the model's greedy sweep (exact equality of the kept list)",
    "kiddo (k-d tree) and parry (convex hull) are oracles validated on every case; mesh sampling and hull / ball-pivot results are certified per case by the Python oracles (on-surface, face normal, CCW hull containing all points, diameter, pivot centres)",
]
ASSUMPTIONS = [
    "theorems over exact reals about the specification (radius test dsq <= r^2, as the code asks kiddo)",
    "uniform sampling: face choice and barycentric map are checked through their outputs (points on the mesh with the normal of a face containing them); the distribution of the RNG is out of scope",
]


def rnd_pts(rng, dim, nmax=400):
    n = rng.choice([1, 2, 5, 33, 70, 150, nmax])
    kind = rng.choice(["uniform", "cluster", "grid", "dup", "grid_dup"])
    if kind == "uniform":
        pts = [[rng.uniform(-5, 5) for _ in range(dim)] for _ in range(n)]
    elif kind == "cluster":
        cs = [[rng.uniform(-5, 5) for _ in range(dim)] for _ in range(3)]
        pts = [[a + rng.gauss(0, 0.05) for a in rng.choice(cs)] for _ in range(n)]
    elif kind == "grid":
        m = max(1, round(n ** (1.0 / dim)))
        pts = [[float(i % m), float((i // m) % m)] + ([float(i // (m * m))] if dim == 3 else []) for i in range(m ** dim)]
        rng.shuffle(pts)
    elif kind == "dup":
        base = [[rng.uniform(-5, 5) for _ in range(dim)] for _ in range(max(1, n // 3))]
        pts = [list(rng.choice(base)) for _ in range(n)]
    else:
        pts = [[float(rng.randint(0, 4)) for _ in range(dim)] for _ in range(n)]
    return pts, kind


def safe_radius(rng, pts, q_list):
    """a radius that is not within rounding of any point-query distance"""
    for _ in range(50):
        r = rng.choice([0.05, 0.3, 0.75, 1.3, 2.6, 20.0]) * rng.uniform(0.9, 1.1)
        if all(abs(math.dist(p, q) - r) > 1e-6 for p in pts for q in q_list):
            return r
    return 1e-3


def gen_kd(rng, dim):
    pts, kind = rnd_pts(rng, dim)
    qs = [[rng.uniform(-6, 6) for _ in range(dim)] for _ in range(2)]
    qs.append(list(pts[rng.randrange(len(pts))]))
    qs.append([a + 0.25 for a in pts[rng.randrange(len(pts))]])
    idx = [i for i in range(len(pts)) if rng.random() < 0.5] or [0]
    sel = rng.random()
    if sel < 0.2:
        idx = list(range(len(pts)))          # every point, in another order: still a remapped tree
    elif sel < 0.3:
        idx = list(range(len(pts)))[::-1]
    rng.shuffle(idx) if sel >= 0.3 or sel < 0.2 else None
    return {"k": "c15.kd%d" % dim, "pts": pts, "qs": qs, "indices": idx, "kk": 0, "k_": 0, "kind": kind,
            "r": safe_radius(rng, pts, qs), "kcount": rng.choice([1, 2, 5, 40, len(pts) + 3])}


def gen_poisson(rng, dim):
    pts, kind = rnd_pts(rng, dim, 200)
    order = rng.choice(["id", "rev", "shuffle", "subset"])
    idx = list(range(len(pts)))
    if order == "rev":
        idx.reverse()
    elif order == "shuffle":
        rng.shuffle(idx)
    elif order == "subset":
        idx = [i for i in idx if rng.random() < 0.6] or [0]
        rng.shuffle(idx)
    r = None
    for _ in range(50):
        r = rng.choice([0.3, 0.75, 1.3, 2.6]) * rng.uniform(0.9, 1.1)
        sub = [pts[i] for i in idx]
        if all(abs(math.dist(a, b) - r) > 1e-6 for ai, a in enumerate(sub) for b in sub[ai + 1:]):
            break
    return {"k": "c15.poisson%d" % dim, "pts": pts, "indices": idx, "r": r, "kind": kind, "order": order}


def gen_mesh(rng):
    kind = rng.choice(["box", "tri", "sliver", "soup"])
    if kind == "box":
        w = [rng.uniform(0.5, 3) for _ in range(3)]
        verts = [[(w[0] if i & 1 else 0.0), (w[1] if i & 2 else 0.0), (w[2] if i & 4 else 0.0)] for i in range(8)]
        faces = [[0, 2, 1], [1, 2, 3], [4, 5, 6], [5, 7, 6], [0, 1, 4], [1, 5, 4], [2, 6, 3], [3, 6, 7], [0, 4, 2], [2, 4, 6], [1, 3, 5], [3, 7, 5]]
    elif kind == "tri":
        verts = [[rng.uniform(-2, 2) for _ in range(3)] for _ in range(3)]
        faces = [[0, 1, 2]]
    elif kind == "sliver":
        L = rng.uniform(3.7, 4.3)
        verts = [[0.0, 0.0, 0.0], [L, 0.0, 0.0], [2.0 + rng.uniform(-0.5, 0.5), 0.05, 0.0], [2.0 + rng.uniform(-0.5, 0.5), -1.0, 1.0]]
        faces = [[0, 1, 2], [0, 3, 1]]
    else:
        verts, faces = [], []
        for i in range(rng.choice([2, 5])):
            c = [rng.uniform(-3, 3) for _ in range(3)]
            for _ in range(3):
                verts.append([a + rng.uniform(-1, 1) for a in c])
            faces.append([3 * i, 3 * i + 1, 3 * i + 2])
    return {"k": "c15.mesh", "verts": verts, "faces": faces, "n": rng.choice([1, 20, 100]), "spacing": rng.choice([0.2, 0.5, 0.5, 1.0, 5.0]), "radius": rng.choice([0.3, 0.6]), "kind": kind}


def gen_mesh_areas(rng):
    """disjoint triangles of different areas, one of them possibly without area (three collinear vertices): the uniform sample
    must hit the faces in proportion to their areas"""
    verts, faces = [], []
    nf = rng.choice([3, 4, 5])
    zero_at = rng.choice([None, 0, 0, 1, nf - 1])
    for i in range(nf):
        c = [6.0 * i, rng.uniform(-1, 1), rng.uniform(-1, 1)]
        if i == zero_at:
            # exactly collinear in binary64: dyadic coordinates
            c = [round(x * 1024) / 1024 for x in c]
            d = [round(rng.uniform(-1, 1) * 512) / 512 for _ in range(3)]
            tri = [[c[j] + t * d[j] for j in range(3)] for t in (0.0, 0.5, 1.0)]
        else:
            sz = rng.choice([0.3, 1.0, 2.0])
            tri = [[c[j] + rng.uniform(-sz, sz) for j in range(3)] for _ in range(3)]
        verts += tri
        faces.append([3 * i, 3 * i + 1, 3 * i + 2])
    return {"k": "c15.mesh", "verts": verts, "faces": faces, "n": 3000, "spacing": 5.0, "radius": 0.6, "kind": "areas", "zero_at": zero_at}


def gen_hull(rng):
    kind = rng.choice(["random", "collinear", "dup", "circle", "reversed", "dip", "dip", "twins"])
    n = rng.choice([3, 4, 8, 30, 100])
    if kind == "twins":
        # uneven spacing around a small ball (radius 0.3): sites about 0.5 apart, each with a twin 0.2 away - neighbours both well inside
        # and near the rim of the search radius 2r = 0.6
        m = rng.choice([6, 12, 25])
        side = math.sqrt(m) * 0.5
        sites = [[rng.uniform(0, side), rng.uniform(0, side)] for _ in range(m)]
        pts = []
        for q in sites:
            t = rng.uniform(0, 2 * math.pi)
            pts += [q, [q[0] + 0.2 * math.cos(t), q[1] + 0.2 * math.sin(t)]]
        sc = rng.choice([0.1, 1.0, 1.0, 10.0])
        pts = [[x * sc, y * sc] for x, y in pts]
        return {"k": "c15.hull", "pts": pts, "radius": 0.3 * sc, "pivot_ccw": rng.random() < 0.5, "kind": kind, "timeout_ms": 5000}
    if kind == "dip":
        # a hull on which the distance from one end of the diameter first rises, then dips, then rises to the other end: the row
        # of the pair scan that holds the diameter is not unimodal; turned by a random angle so that the hull may start anywhere
        base = [[0.0, 0.0], [7.0, -1.0], [6.9, 0.5], [5.0, 6.0]]
        t = rng.uniform(0, 2 * math.pi)
        pts = [[x * math.cos(t) - y * math.sin(t), x * math.sin(t) + y * math.cos(t)] for x, y in base]
        pts += [[sum(p[0] for p in pts) / 4 + rng.uniform(-0.5, 0.5), sum(p[1] for p in pts) / 4 + rng.uniform(-0.5, 0.5)] for _ in range(rng.choice([0, 3]))]
        rng.shuffle(pts)
    elif kind == "circle" or kind == "reversed":
        pts = [[3 * math.cos(2 * math.pi * i / n), 2 * math.sin(2 * math.pi * i / n)] for i in range(n)]
        if kind == "reversed":
            pts.reverse()
    else:
        pts = [[rng.uniform(-5, 5), rng.uniform(-5, 5)] for _ in range(n)]
        if kind == "collinear":
            pts += [[-5.0 + i, -5.5] for i in range(6)]
        if kind == "dup":
            pts += [list(p) for p in pts[:3]]
    # the whole configuration at different scales (ball radii from 0.01 to 1000): nothing in the clause depends on the unit
    sc = rng.choice([0.02, 0.1, 1.0, 1.0, 20.0])
    pts = [[x * sc, y * sc] for x, y in pts]
    return {"k": "c15.hull", "pts": pts, "radius": rng.choice([0.5, 2.0, 8.0, 50.0]) * sc, "pivot_ccw": rng.random() < 0.5, "kind": kind, "timeout_ms": 5000}


def corpus():
    # D19 shape: a small lattice with duplicates
    pts = [[float(i % 5), float(i // 5)] for i in range(25)] * 3
    yield {"k": "c15.kd2", "pts": pts, "qs": [[2.0, 2.0], [0.5, 0.5]], "indices": list(range(0, 75, 2)), "kind": "corpus", "r": 1.2, "kcount": 7}


def generate(rng, tier):
    n = 60 if tier == "quick" else 900
    out = []
    for _ in range(n):
        out += [gen_kd(rng, 2), gen_kd(rng, 3), gen_poisson(rng, 2), gen_poisson(rng, 3), gen_hull(rng)]
    for _ in range(n // 2):
        out.append(gen_mesh(rng))
    for _ in range(n // 6):
        out.append(gen_mesh_areas(rng))
    for c in out:
        if c["k"].startswith("c15.kd"):
            c["k_"] = c["kcount"]
    return out


def tag(c, r):
    return "%s:%s" % (c["k"], c.get("kind"))


def T(p):
    return tuple(float(x) for x in p)


def enc_case(c):
    return c


# the k-d tree finding explains disagreements of the query and Poisson checkers only, not of the dense-sampling (9) or hull (7, 8) ones
EXPLAINS = {"kd-wrong-result": {1, 2, 3, 4, 5, 21, 22, 23, 24, 25}}


def coq_check(c, r):
    k = c["k"]
    if k in ("c15.kd2", "c15.kd3"):
        if len(c["pts"]) > 160:
            return None
        V = "(@VO2 FNum)" if k.endswith("2") else "(@VO3 FNum)"
        def qs(res):
            return [(T(q), (int(o["one"][0]), o["one"][1]), [(int(i), d) for i, d in o["k"]], [(int(i), d) for i, d in o["within"]]) for q, o in zip(c["qs"], res)]
        a = "check_kd %s %s %s %s %s" % (V, coq([T(p) for p in c["pts"]]), coq(int(c["kcount"])), coq(c["r"]), coq(qs(r["full"])))
        b = "check_partial %s %s %s %s %s %s" % (V, coq([T(p) for p in c["pts"]]), coq([int(i) for i in c["indices"]]), coq(int(c["kcount"])), coq(c["r"]), coq(qs(r["part"])))
        return "(let a := %s in if Z.eqb a 0%%Z then (let b := %s in if Z.eqb b 0%%Z then 0%%Z else Z.add 20%%Z b) else a)" % (a, b)
    if k in ("c15.poisson2", "c15.poisson3"):
        if len(c["indices"]) > 160:
            return None
        V = "(@VO2 FNum)" if k.endswith("2") else "(@VO3 FNum)"
        return "check_poisson %s %s %s %s %s" % (V, coq([T(p) for p in c["pts"]]), coq([int(i) for i in c["indices"]]), coq(c["r"]), coq([int(i) for i in r["keep"]]))
    if k == "c15.mesh":
        # the dense sample is deterministic: the whole point list against the model's, in order
        if isinstance(r.get("dense"), dict) or len(r["dense"]) > 4000:
            return None
        return "check_dense %s %s %s %s" % (coq([T(p) for p in c["verts"]]), coq([tuple(int(i) for i in f) for f in c["faces"]]), coq(float(c["spacing"])), coq([T(p) for p, _ in r["dense"]]))
    if k == "c15.hull":
        # engeom's own logic on top of parry's hull: the order vote over the hull indices and the farthest pair of hull vertices
        if r.get("timeout") or r.get("panic") or "hull" not in r:
            return None
        a = "check_order %s %s" % (coq([int(i) for i in r["hull"]]), coq(r["dir"] == "ccw"))
        fi = r.get("far_idx")
        if fi is None or len(fi["poly"]) > 120:
            return a
        b = "check_farthest %s %s %s" % (coq([T(p) for p in fi["poly"]]), coq(int(fi["i"])), coq(int(fi["j"])))
        return "(let a := %s in if Z.eqb a 0%%Z then %s else a)" % (a, b)
    return None


# ------------------------------------------------------------------ oracles

def seg_closest(q, a, b):
    v = [y - x for x, y in zip(a, b)]
    w = [y - x for x, y in zip(a, q)]
    vv = sum(x * x for x in v)
    t = 0.0 if vv == 0 else max(0.0, min(1.0, sum(x * y for x, y in zip(v, w)) / vv))
    return [x + t * y for x, y in zip(a, v)]


def cross(a, b):
    return [a[1] * b[2] - a[2] * b[1], a[2] * b[0] - a[0] * b[2], a[0] * b[1] - a[1] * b[0]]


def dot(a, b):
    return sum(x * y for x, y in zip(a, b))


def sub(a, b):
    return [x - y for x, y in zip(a, b)]


def tri_dist(q, a, b, c):
    n = cross(sub(b, a), sub(c, a))
    nn = dot(n, n)
    best = min(math.dist(q, seg_closest(q, a, b)), math.dist(q, seg_closest(q, b, c)), math.dist(q, seg_closest(q, c, a)))
    if nn > 0:
        s = dot(sub(q, a), n) / nn
        p = [x - s * y for x, y in zip(q, n)]
        if dot(cross(sub(b, a), sub(p, a)), n) >= 0 and dot(cross(sub(c, b), sub(p, b)), n) >= 0 and dot(cross(sub(a, c), sub(p, c)), n) >= 0:
            best = min(best, math.dist(q, p))
    return best


def kd_oracle(pts, allowed, res, q, kcount, r, what):
    """allowed: the indices the tree was built on (all, or the partial tree's subset)"""
    ds = sorted((math.dist(pts[i], q), i) for i in set(allowed))
    one = res["one"]
    for (i, d), name in [(one, "nearest_one")] + [(x, "nearest") for x in res["k"]] + [(x, "within") for x in res["within"]]:
        if i not in allowed:
            yield ("kd-index-range", what + ": %s reports index %r which is not in the tree" % (name, i))
            return
        if abs(math.dist(pts[i], q) - d) > 1e-9 * max(1.0, d):
            yield ("kd-wrong-result", what + ": %s reports (index %d, distance %r) but that point is %r away" % (name, i, d, math.dist(pts[i], q)))
            return
    if abs(one[1] - ds[0][0]) > 1e-9 * max(1.0, ds[0][0]):
        yield ("kd-wrong-result", what + ": nearest_one distance %r, brute force %r" % (one[1], ds[0][0]))
    # the multiset of positions: a partial tree over repeated indices holds the point several times
    want_k = min(kcount, len(allowed))
    kd = [d for _, d in res["k"]]
    if len(kd) != want_k or any(b < a for a, b in zip(kd, kd[1:])):
        yield ("kd-knn", what + ": nearest(%d) returned %d results %r" % (kcount, len(kd), kd[:6]))
    else:
        mult = sorted(math.dist(pts[i], q) for i in allowed)[:want_k]
        if any(abs(a - b) > 1e-9 * max(1.0, b) for a, b in zip(kd, mult)):
            yield ("kd-wrong-result", what + ": nearest(%d) distances %r, brute force %r" % (kcount, kd[:6], mult[:6]))
    got = sorted(i for i, _ in res["within"])
    want = sorted(i for i in allowed if math.dist(pts[i], q) <= r)
    if got != want:
        yield ("kd-wrong-result", what + ": within(%r) returned indices %r, brute force %r" % (r, got[:12], want[:12]))


def oracle(c, r):
    k = c["k"]
    if k in ("c15.kd2", "c15.kd3"):
        pts = c["pts"]
        # the listed finding (kiddo returns wrong results) is about data with tied coordinates (gridded, duplicated); on data without a
        # tie a wrong answer is something else and is reported as such
        tied = any(len(set(p[j] for p in pts)) < len(pts) for j in range(len(pts[0])))
        rekey = (lambda kv: kv) if tied else (lambda kv: ("kd-wrong" if kv[0] == "kd-wrong-result" else kv[0], kv[1]))
        for q, o in zip(c["qs"], r["full"]):
            yield from map(rekey, kd_oracle(pts, list(range(len(pts))), o, q, c["kcount"], c["r"], "KdTree over %d %s points, query %r" % (len(pts), c["kind"], q)))
        for q, o in zip(c["qs"], r["part"]):
            yield from map(rekey, kd_oracle(pts, list(c["indices"]), o, q, min(c["kcount"], max(1, len(c["indices"]))), c["r"],
                                 "PartialKdTree over %d of %d %s points, query %r" % (len(c["indices"]), len(pts), c["kind"], q)))
    elif k in ("c15.poisson2", "c15.poisson3"):
        pts, idx, rad, keep = c["pts"], c["indices"], c["r"], r["keep"]
        what = "sample_poisson_disk(%d %s points, %d working indices (%s), r=%r)" % (len(pts), c["kind"], len(idx), c["order"], rad)
        if r.get("kd_bad") is not None:
            b = r["kd_bad"]
            wp = [pts[i] for i in idx]
            tied = any(len(set(p[j] for p in wp)) < len(wp) for j in range(len(wp[0])))
            yield ("kd-wrong-result" if tied else "kd-wrong", what + ": the k-d tree's radius query at working point %d returns positions %r, brute force %r" % (b["at"], b["got"][:8], b["want"][:8]))
            return
        if any(i not in idx for i in keep) or len(set(keep)) != len(keep):
            yield ("poisson-subset", what + ": kept %r is not a duplicate-free subset of the working indices" % (keep[:10],))
            return
        for ai, a in enumerate(keep):
            for b in keep[ai + 1:]:
                if math.dist(pts[a], pts[b]) <= rad:
                    yield ("poisson-separated", what + ": kept points %d and %d are %r apart" % (a, b, math.dist(pts[a], pts[b])))
                    return
        for i in idx:
            if not any(math.dist(pts[i], pts[a]) <= rad for a in keep):
                yield ("poisson-covering", what + ": working point %d is farther than r from every kept point" % i)
                return
    elif k == "c15.mesh":
        verts, faces = c["verts"], c["faces"]
        tris = [(verts[f[0]], verts[f[1]], verts[f[2]]) for f in faces]
        norms = []
        for t in tris:
            n = cross(sub(t[1], t[0]), sub(t[2], t[0]))
            nn = math.sqrt(dot(n, n))
            norms.append([x / nn for x in n] if nn > 0 else None)
        for name in ("uniform", "dense", "poisson"):
            if isinstance(r[name], dict):
                yield ("sample-panic", "sample_%s panicked on a %s mesh (n=%r spacing=%r radius=%r)" % (name, c["kind"], c["n"], c["spacing"], c["radius"]))
                return
        for name in ("uniform", "dense", "poisson"):
            for p, n in r[name]:
                ok = any(nm is not None and tri_dist(p, *t) <= 1e-9 and math.dist(nm, n) <= 1e-9 for t, nm in zip(tris, norms))
                if not ok:
                    yield ("sample-on-surface", "sample_%s on a %s mesh: point %r with normal %r is not on a face with that normal" % (name, c["kind"], p, n))
                    break
        if len(r["uniform"]) != c["n"]:
            yield ("sample-count", "sample_uniform(%d) returned %d points" % (c["n"], len(r["uniform"])))
        elif c["kind"] == "areas":
            # faces are hit in proportion to area (the triangles are far apart: the face of a sample is the nearest one)
            areas = [0.5 * math.sqrt(dot(*(2 * [cross(sub(t[1], t[0]), sub(t[2], t[0]))]))) for t in tris]
            tot = sum(areas)
            cnt = [0] * len(tris)
            for p, _ in r["uniform"]:
                cnt[min(range(len(tris)), key=lambda i: tri_dist(p, *tris[i]))] += 1
            for i, a in enumerate(areas):
                pr = a / tot
                sd = math.sqrt(c["n"] * pr * (1 - pr))
                if abs(cnt[i] - c["n"] * pr) > 6 * sd + 3:
                    yield ("sample-proportion", "sample_uniform(%d) on triangles of areas %r hit face %d %d times, in proportion to area that is %.1f (+- %.1f)" % (
                        c["n"], [round(x, 4) for x in areas], i, cnt[i], c["n"] * pr, sd))
                    break
        # dense: every face is represented (its centre or lattice origin), spacing respected between lattice neighbours is not demanded
        with_area = sum(1 for nm in norms if nm is not None)
        if len(r["dense"]) < with_area:
            yield ("sample-dense-cover", "sample_dense(%r) returned %d points for %d faces with area" % (c["spacing"], len(r["dense"]), with_area))
        pp = [p for p, _ in r["poisson"]]
        if r.get("kd_bad") is not None:
            b = r["kd_bad"]
            yield ("kd-wrong-result", "sample_poisson(%r) on a %s mesh: the k-d tree's radius query over the dense sample returns %r at point %d, brute force %r" % (c["radius"], c["kind"], b["got"][:8], b["at"], b["want"][:8]))
            pp = []
        for ai, a in enumerate(pp):
            for b in pp[ai + 1:]:
                if math.dist(a, b) <= c["radius"] * (1 - 1e-12):
                    yield ("sample-poisson-separated", "sample_poisson(%r): two points %r apart" % (c["radius"], math.dist(a, b)))
                    return
    elif k == "c15.hull":
        if r.get("timeout") or r.get("panic"):
            yield ("hull-hang" if r.get("timeout") else "hull-panic", "hull / ball pivot on %d %s points (radius %r) %s" % (len(c["pts"]), c["kind"], c["radius"], "did not finish" if r.get("timeout") else "panicked"))
            return
        pts, hull = c["pts"], r["hull"]
        what = "convex hull of %d %s points" % (len(pts), c["kind"])
        hp = [pts[i] for i in hull]
        m = len(hp)
        area2 = sum(hp[i][0] * hp[(i + 1) % m][1] - hp[(i + 1) % m][0] * hp[i][1] for i in range(m))
        if m >= 3 and area2 <= 0:
            yield ("hull-ccw", what + ": hull indices %r run clockwise (signed area %r)" % (hull[:10], area2 / 2))
        for i in range(m):
            a, b = hp[i], hp[(i + 1) % m]
            for p in pts:
                if (b[0] - a[0]) * (p[1] - a[1]) - (b[1] - a[1]) * (p[0] - a[0]) < -1e-9:
                    yield ("hull-contains", what + ": point %r is outside hull edge %r -> %r" % (p, a, b))
                    return
        if r["far"] is not None:
            d = math.dist(r["far"][0], r["far"][1])
            best = max(math.dist(a, b) for a in pts for b in pts)
            if abs(d - best) > 1e-9 * max(1.0, best):
                yield ("hull-diameter", what + ": farthest pair %r apart, true diameter %r" % (d, best))
        # order direction = sign of the signed area of the polygon through the points in index order
        n = len(pts)
        sa = sum(pts[i][0] * pts[(i + 1) % n][1] - pts[(i + 1) % n][0] * pts[i][1] for i in range(n))
        if c["kind"] in ("circle", "reversed") and (r["dir"] == "ccw") != (sa > 0):
            yield ("order-direction", what + ": point_order_direction %s, signed area %r" % (r["dir"], sa / 2))
        pv = r["pivot"]
        if pv.get("timeout"):
            yield ("pivot-hang", what + ": ball_pivot did not finish")
        elif not pv.get("err") and not pv.get("panic"):
            rad = c["radius"]
            idx, cen = pv["idx"], pv["centers"]
            for j, ctr in enumerate(cen):
                for p in pts:
                    if math.dist(p, ctr) < rad * (1 - 1e-9):
                        yield ("pivot-empty-ball", what + ": pivot centre %r (radius %r) has point %r strictly inside (%r)" % (ctr, rad, p, math.dist(p, ctr)))
                        return
                if j < len(idx) - 1:
                    a, b = pts[idx[j]], pts[idx[j + 1]]
                    if abs(math.dist(a, ctr) - rad) > 1e-6 * rad or abs(math.dist(b, ctr) - rad) > 1e-6 * rad:
                        yield ("pivot-centre", what + ": centre %r is %r and %r from consecutive hull points %d, %d (radius %r)" % (ctr, math.dist(a, ctr), math.dist(b, ctr), idx[j], idx[j + 1], rad))
                        return
