"""C10  Airfoil analysis yields inscribed circles and recovers a known medial axis."""
import math
import common as C
from common import Some, Nat, Raw, opt, coq

LEVEL = "proof"
COQ_IMPORTS = ["Tie.C10"]
RULE = ("sections generated as the envelope of circles with a known radius law (maximum thickness 4-20% of chord at 25-60% of the camber length, "
        "end radii 0.5-3% of chord) along a known camber curve (parabolic with 0-8% camber, or - one case in five - straight with a 90-120 degree bend aft of the maximum thickness), chord 0.3..100, 150-600 vertices, both windings, rotated "
        "start vertex, arbitrary rigid pose; every CamberOrient x the applicable EdgeLocate methods x both FaceOrient; container logic on synthetic "
        "station lists with random push histories; both orientation implementations on synthetic station lists (2-25 stations along straight, arced and hooked "
        "centre lines, largest circle at 20-80% of the length, either list order, random directions); seven thickness gauges per analysed section. distinct = distinct (tag, input)")
TRUSTED_BASE = [
    "Coq 8.16.1 kernel and vm_compute",
    "hand-written model coq/Model/Airfoil.v of the container and ordering logic (OrientedCircles push/last/take, reverse_inscribed_circles, find_tmax_circle), tied by differential correspondence Tie/C10.v through the public airfoil::helpers API",
    "hand-written model coq/Model/Inscribed.v of inscribed_from_spanning_ray (the bisection for one station, over C02's closest-point specification of the section query), tied by differential correspondence (check_inscribed: centre, radius and both contacts on generated sections and polygons, tolerances 1e-3..1e-6 of the chord); proved: it ends for every positive tolerance and returns an inscribed circle within the tolerance (Proofs/Inscribed.v)",
    "the other geometric claims (monotone stations, edge points, upper/lower partition, recovery of the known medial axis) and the whole-analysis view of the inscribed circles are certified per analysed section by tools/props/c10.py using an exhaustive point-to-section distance",
]
ASSUMPTIONS = [
    "partial: the bisection for one station is proved (terminates, inscribed within tolerance, for the model over the closest-point specification; parry's query is validated against that specification in C02); the march along the section, the refinement loop and the edge locators are certified per explored section, and their termination is only watched (watchdog)",
    "recovery tolerances: centres within 2% of the maximum thickness of the generating camber curve, radii within 2% of the maximum thickness of the law (discretisation of the polyline)",
]


def section(chord, camber, tmax, xt, r_end, n, ccw, roll, pose, open_end=None, cut=None):
    """closed polyline: envelope of circles of radius r(x) centred on the parabola y = 4 camber x (1 - x/c)"""
    c = chord
    p = math.log(0.5) / math.log(xt)            # u = (x/c)^p puts the maximum at x/c = xt
    def r(x):
        u = max(0.0, min(1.0, x / c)) ** p
        return r_end * c + (tmax * c / 2 - r_end * c) * math.sin(math.pi * u) ** 2
    def y(x):
        return 4 * camber * x * (1 - x / c)
    def yp(x):
        return 4 * camber * (1 - 2 * x / c)
    def env(x, sign):
        h = 1e-6 * c
        rx = (r(min(c, x + h)) - r(max(0.0, x - h))) / (min(c, x + h) - max(0.0, x - h))
        g = math.sqrt(1 + yp(x) ** 2)
        rs = max(-0.999, min(0.999, rx / g))
        T = (1 / g, yp(x) / g)
        Nn = (-yp(x) / g, 1 / g)
        rr = r(x)
        k = math.sqrt(1 - rs * rs)
        return [x + rr * (-rs * T[0] + sign * k * Nn[0]), y(x) + rr * (-rs * T[1] + sign * k * Nn[1])]
    m = n // 2
    xs = [c * 0.5 * (1 - math.cos(math.pi * i / m)) for i in range(m + 1)]       # clustered at the ends
    upper = [env(x, 1) for x in xs]
    lower = [env(x, -1) for x in xs]
    def cap(cx, cy, a0, a1, k):
        return [[cx + r_end * c * math.cos(a0 + (a1 - a0) * i / k), cy + r_end * c * math.sin(a0 + (a1 - a0) * i / k)] for i in range(1, k)]
    # trailing cap: from the upper end to the lower end around the far (+T) side
    gte = math.atan2(yp(c), 1.0)
    te = cap(c, y(c), gte + math.pi / 2, gte - math.pi / 2, 12)
    gle = math.atan2(yp(0.0), 1.0)
    le = cap(0.0, y(0.0), gle - math.pi / 2, gle - 3 * math.pi / 2, 12)
    cu, cl = cut if cut else (0, 0)       # vertices dropped from the open end of the upper / lower surface (an uneven cut)
    if open_end == "te":        # open at the trailing end: lower (TE -> LE), leading cap, upper (LE -> TE)
        pts = lower[:len(lower) - cl][::-1] + le + upper[:len(upper) - cu]
    elif open_end == "le":      # open at the leading end
        pts = upper[cu:] + te + lower[cl:][::-1]
    else:
        pts = upper + te + lower[::-1] + le          # clockwise
    if ccw:
        pts = pts[::-1]
    if open_end is None:
        k = roll % len(pts)
        pts = pts[k:] + pts[:k]
    ang, tx, ty = pose
    ca, sa = math.cos(ang), math.sin(ang)
    return [[ca * px - sa * py + tx, sa * px + ca * py + ty] for px, py in pts], dict(r=r, y=y, yp=yp, c=c)


def hook_curve(L, bend):
    """camber curve by arc length: straight for 0.5 L, a circular arc turning left by `bend` over 0.25 L, straight for 0.25 L"""
    a, larc = 0.5 * L, 0.25 * L
    R = larc / bend
    ex, ey = a + R * math.sin(bend), R * (1 - math.cos(bend))
    def CT(u):
        u = max(0.0, min(L, u))
        if u <= a:
            return (u, 0.0), (1.0, 0.0)
        if u <= a + larc:
            th = (u - a) / R
            return (a + R * math.sin(th), R * (1 - math.cos(th))), (math.cos(th), math.sin(th))
        w = u - a - larc
        return (ex + w * math.cos(bend), ey + w * math.sin(bend)), (math.cos(bend), math.sin(bend))
    return CT


def section_hook(chord, tmax, xt, r_end, n, ccw, roll, pose, bend, family="hook", camber=0.0, open_end=None):
    """closed polyline: envelope of circles of radius r(s) centred on a hooked camber curve of length `chord`"""
    L = chord
    CT = hook_curve(L, bend)
    p = math.log(0.5) / math.log(xt)
    def r(u):
        w = max(0.0, min(1.0, u / L)) ** p
        return r_end * L + (tmax * L / 2 - r_end * L) * math.sin(math.pi * w) ** 2
    def env(u, sign):
        h = 1e-6 * L
        rs = (r(min(L, u + h)) - r(max(0.0, u - h))) / (min(L, u + h) - max(0.0, u - h))
        rs = max(-0.999, min(0.999, rs))
        (cx, cy), T = CT(u)
        Nn = (-T[1], T[0])
        k = math.sqrt(1 - rs * rs)
        return [cx + r(u) * (-rs * T[0] + sign * k * Nn[0]), cy + r(u) * (-rs * T[1] + sign * k * Nn[1])]
    m = n // 2
    us = [L * 0.5 * (1 - math.cos(math.pi * i / m)) for i in range(m + 1)]
    upper = [env(u, 1) for u in us]
    lower = [env(u, -1) for u in us]
    def cap(c0, a0, a1, k):
        return [[c0[0] + r_end * L * math.cos(a0 + (a1 - a0) * i / k), c0[1] + r_end * L * math.sin(a0 + (a1 - a0) * i / k)] for i in range(1, k)]
    (c1, t1), (c0, t0) = CT(L), CT(0.0)
    gte, gle = math.atan2(t1[1], t1[0]), math.atan2(t0[1], t0[0])
    te = cap(c1, gte + math.pi / 2, gte - math.pi / 2, 12)
    le = cap(c0, gle - math.pi / 2, gle - 3 * math.pi / 2, 12)
    pts = upper + te + lower[::-1] + le
    if ccw:
        pts = pts[::-1]
    k = roll % len(pts)
    pts = pts[k:] + pts[:k]
    ang, tx, ty = pose
    ca, sa = math.cos(ang), math.sin(ang)
    samples = [CT(L * i / 2000.0)[0] for i in range(2001)]
    return [[ca * px - sa * py + tx, sa * px + ca * py + ty] for px, py in pts], dict(r=r, c=L, samples=samples)


def camber_param(spec, law, p):
    """a point given in the section's own (unposed) frame -> (position along the camber curve, distance from it)"""
    if spec.get("family") == "hook":
        sm = law["samples"]
        j = min(range(len(sm)), key=lambda i: (sm[i][0] - p[0]) ** 2 + (sm[i][1] - p[1]) ** 2)
        best = (math.dist(sm[j], p), law["c"] * j / (len(sm) - 1.0))
        for a in (j - 1, j):
            if 0 <= a < len(sm) - 1:
                v = [sm[a + 1][0] - sm[a][0], sm[a + 1][1] - sm[a][1]]
                w = [p[0] - sm[a][0], p[1] - sm[a][1]]
                t = max(0.0, min(1.0, (v[0] * w[0] + v[1] * w[1]) / (v[0] ** 2 + v[1] ** 2)))
                q = [sm[a][0] + t * v[0], sm[a][1] + t * v[1]]
                if math.dist(q, p) < best[0]:
                    best = (math.dist(q, p), law["c"] * (a + t) / (len(sm) - 1.0))
        return best[1], best[0]
    return p[0], abs(p[1] - law["y"](p[0]))


def make_section(spec):
    return section_hook(**spec) if spec.get("family") == "hook" else section(**spec)


def gen_analyze(rng):
    chord = rng.choice([0.3, 1.0, 1.0, 25.0, 100.0])
    spec = {"chord": chord, "camber": rng.choice([0.0, 0.02, 0.05, 0.08]), "tmax": rng.choice([0.04, 0.08, 0.12, 0.2]), "xt": rng.choice([0.25, 0.3, 0.4, 0.5, 0.6]),
            # the end radius varies continuously: where the station march stops short of an edge (its phase) follows from it
            "r_end": rng.choice([0.005, 0.01, 0.03]) * rng.uniform(0.8, 1.25), "n": rng.choice([150, 300, 600]), "ccw": rng.random() < 0.5, "roll": rng.randrange(600),
            "pose": [rng.choice([0.0, rng.uniform(-3, 3)]), rng.choice([0.0, rng.uniform(-5, 5) * chord]), rng.choice([0.0, rng.uniform(-5, 5) * chord])]}
    if spec["r_end"] * 2 >= spec["tmax"] * 0.8:
        spec["r_end"] = spec["tmax"] * 0.1
    spec["open_end"] = rng.choice([None, None, None, "te", "le"])
    if spec["open_end"] and rng.random() < 0.7:
        k = max(2, spec["n"] // 10)
        spec["cut"] = rng.choice([[k, 0], [0, k], [k // 2, 0], [0, k // 2]])
    if rng.random() < 0.2:
        # hooked camber: straight, then a sharp left bend aft of the maximum thickness, which sits before the middle of the
        # camber length although it is nearer (in a straight line) to the trailing end
        spec = {"family": "hook", "chord": chord, "camber": 0.0, "tmax": rng.choice([0.08, 0.1]), "xt": 0.42, "r_end": 0.01, "n": rng.choice([300, 600]),
                "ccw": rng.random() < 0.5, "roll": rng.randrange(600), "pose": spec["pose"], "bend": rng.choice([math.pi / 2, 2 * math.pi / 3]), "open_end": None}
    pts, _ = make_section(spec)
    ang = spec["pose"][0]
    fwd = [-math.cos(ang), -math.sin(ang)]            # towards the leading edge (x = 0 end)
    up = [-math.sin(ang), math.cos(ang)]
    lead = rng.choice(["intersect", "converge", "const", "fit", "trace"])
    trail = rng.choice(["intersect", "converge", "const"])
    if spec["open_end"] == "te":
        trail = rng.choice(["open", "open_gap", "open_gap"])
    elif spec["open_end"] == "le":
        lead = rng.choice(["open", "open_gap", "open_gap"])
    # an open section is analysed with the forward direction given (which end is open is part of the request)
    return {"k": "c10.analyze", "closed": spec["open_end"] is None, "pts": pts, "tol": 1e-6 * chord, "core_tol": rng.choice([1e-3, 1e-4, 1e-4, 1e-5, 1e-6]) * chord,
            "orient": fwd if spec["open_end"] else rng.choice(["tmax", fwd]), "face": rng.choice(["detect", up]),
            "leading": lead, "trailing": trail, "spec": spec, "timeout_ms": 20000, "also_reversed": spec.get("open_end") is not None,
            "gauges": [["camber", 0.3 * chord], ["camber", -0.3 * chord], ["camber", 0.5 * chord], ["radius", 0.2 * chord], ["radius", -0.2 * chord], ["radius", 0.45 * chord], ["radius", -0.45 * chord]]}


def gen_inscribed(rng):
    """the bisection on one spanning ray: a closed generated section (or a plain polygon), a chord from a point of one edge
    along the inward normal of that edge to the first other edge it meets"""
    if rng.random() < 0.7:
        c0 = gen_analyze(rng)
        while not c0["closed"]:
            c0 = gen_analyze(rng)
        pts, chord = c0["pts"], c0["spec"]["chord"]
    else:
        chord = rng.choice([1.0, 10.0])
        n = rng.choice([5, 8, 13])
        pts = [[chord * (1 + 0.3 * rng.random()) * math.cos(2 * math.pi * i / n), chord * 0.4 * (1 + 0.3 * rng.random()) * math.sin(2 * math.pi * i / n)] for i in range(n)]
    m = len(pts)
    for _ in range(50):
        i = rng.randrange(m)
        a, b = pts[i], pts[(i + 1) % m]
        f = rng.uniform(0.1, 0.9)
        p0 = [a[0] + (b[0] - a[0]) * f, a[1] + (b[1] - a[1]) * f]
        e = [b[0] - a[0], b[1] - a[1]]
        best = None
        for sgn in (1, -1):
            d = [-e[1] * sgn, e[0] * sgn]
            for j in range(m):
                if j == i:
                    continue
                u, v = pts[j], pts[(j + 1) % m]
                w = [v[0] - u[0], v[1] - u[1]]
                den = d[0] * w[1] - d[1] * w[0]
                if abs(den) < 1e-14 * chord * chord:
                    continue
                t = ((u[0] - p0[0]) * w[1] - (u[1] - p0[1]) * w[0]) / den
                s2 = ((u[0] - p0[0]) * d[1] - (u[1] - p0[1]) * d[0]) / den
                if t > 1e-9 and 0.0 <= s2 <= 1.0 and (best is None or t < best[0]):
                    best = (t, [u[0] + w[0] * s2, u[1] + w[1] * s2], sgn)
        # the inward side is the one whose nearest hit is nearer (the outward normal of a closed section meets nothing or only far parts)
        if best is None or math.dist(best[1], p0) < 1e-3 * chord:
            continue
        # keep the inward normal only: the midpoint of the chord is inside the polygon (crossing number)
        mid = [(p0[0] + best[1][0]) / 2, (p0[1] + best[1][1]) / 2]
        cnt = 0
        for j in range(m):
            u, v = pts[j], pts[(j + 1) % m]
            if (u[1] > mid[1]) != (v[1] > mid[1]) and mid[0] < u[0] + (v[0] - u[0]) * (mid[1] - u[1]) / (v[1] - u[1]):
                cnt += 1
        if cnt % 2 == 1:
            return {"k": "c10.inscribed", "pts": pts, "closed": True, "ctol": 1e-9 * chord, "p0": p0, "p1": best[1], "tol": rng.choice([1e-3, 1e-4, 1e-5, 1e-6]) * chord, "chord": chord}
    return gen_oriented(rng)


def gen_caliper(rng):
    c0 = gen_analyze(rng)
    while not c0["closed"] or c0["spec"].get("family") == "hook" or (c0["spec"]["camber"] == 0.0 and rng.random() < 0.8):
        c0 = gen_analyze(rng)
    spec = c0["spec"]
    ang, tx, ty = spec["pose"]
    chord = spec["chord"]
    te = [chord * math.cos(ang) + tx, chord * math.sin(ang) + ty]
    # any attitude: which leg of the hull comes last in the hull's own list depends on it
    th = rng.uniform(0, 2 * math.pi)
    rot = lambda p: [p[0] * math.cos(th) - p[1] * math.sin(th), p[0] * math.sin(th) + p[1] * math.cos(th)]
    return {"k": "c10.caliper", "pts": [rot(p) for p in c0["pts"]], "ctol": 1e-9 * chord, "camber": [rot([tx, ty]), rot(te)], "chord": chord, "spec": spec}


def gen_open_gap(rng):
    """open sections cut unevenly (one surface reaches clearly further than the other), the open end located by OpenIntersectGap,
    the other end by the camber / section intersection: analysed in both vertex orders"""
    while True:
        c = gen_analyze(rng)
        sp = c["spec"]
        if sp.get("family") == "hook" or not sp.get("open_end"):
            continue
        k = max(3, sp["n"] // rng.choice([20, 24, 28]))
        sp["cut"] = rng.choice([[k, 0], [0, k]])
        c["pts"], _ = make_section(sp)
        if sp["open_end"] == "te":
            c["trailing"], c["leading"] = "open_gap", "intersect"
        else:
            c["leading"], c["trailing"] = "open_gap", "intersect"
        return c


def gen_oriented(rng):
    def st():
        return [rng.uniform(-5, 5), rng.uniform(-1, 1), rng.uniform(0.05, 1.0), rng.random() < 0.5]
    return {"k": "c10.oriented", "init": [st() for _ in range(rng.choice([0, 1, 3, 8]))], "reversed": rng.random() < 0.5, "pushes": [st() for _ in range(rng.randint(0, 5))]}


def gen_orient(rng):
    """synthetic stations along straight, arced and hooked centre lines; the largest circle anywhere along them"""
    n = rng.choice([2, 3, 6, 12, 25])
    L = rng.choice([1.0, 10.0])
    kind = rng.choice(["line", "arc", "hook", "hook"])
    CT = hook_curve(L, rng.choice([math.pi / 2, 2 * math.pi / 3, 2.5])) if kind == "hook" else None
    us = sorted(rng.uniform(0, L) for _ in range(n))
    us[0], us[-1] = 0.0, L
    if n == 2 and rng.random() < 0.3:
        us[1] = 0.0             # coincident centres: no camber curve
    peak = rng.choice([0.2, 0.42, 0.47, 0.53, 0.58, 0.8]) * L
    ang, tx, ty = rng.uniform(-3, 3), rng.uniform(-5, 5) * L, rng.uniform(-5, 5) * L
    ca, sa = math.cos(ang), math.sin(ang)
    sts = []
    for u in us:
        if kind == "line":
            x, y = u, 0.0
        elif kind == "arc":
            x, y = L * math.sin(u / L), L * (1 - math.cos(u / L))
        else:
            (x, y), _ = CT(u)
        r = 0.01 * L + 0.05 * L * max(0.0, 1 - abs(u - peak) / L)
        sts.append([ca * x - sa * y + tx, sa * x + ca * y + ty, r, rng.random() < 0.5])
    if rng.random() < 0.5:
        sts.reverse()
    return {"k": "c10.orient", "init": sts, "orient": rng.choice(["tmax", [rng.uniform(-1, 1), rng.uniform(-1, 1)]])}


def corpus():
    return []


def generate(rng, tier):
    n = 56 if tier == "quick" else 600
    return [gen_analyze(rng) for _ in range(n)] + [gen_open_gap(rng) for _ in range(n // 2)] + [gen_oriented(rng) for _ in range(2 * n)] + [gen_orient(rng) for _ in range(2 * n)] + [gen_inscribed(rng) for _ in range(n)] + [gen_caliper(rng) for _ in range(2 * n)]


def tag(c, r):
    if c["k"] == "c10.caliper":
        return "%s:camber%g:%s" % (c["k"], c["spec"]["camber"], "err" if r.get("err") else "panic" if r.get("panic") else "ok")
    if c["k"] == "c10.inscribed":
        return "%s:%d:%g:%s" % (c["k"], min(len(c["pts"]), 100), c["tol"] / c["chord"], "panic" if r.get("panic") else "ok")
    if c["k"] == "c10.orient":
        return "%s:%s:%d:%s" % (c["k"], "tmax" if c["orient"] == "tmax" else "dir", len(c["init"]), "err" if r.get("err") else "panic" if r.get("panic") else "ok")
    if c["k"] == "c10.oriented":
        return "%s:%s:%d" % (c["k"], c["reversed"], len(c["pushes"]))
    st = "timeout" if r.get("timeout") else "panic" if r.get("panic") else "err" if r.get("err") else "ok"
    return "%s:%s:%s:%s:%s" % (c["k"], c["leading"], c["trailing"], "tmax" if c["orient"] == "tmax" else "dir", st)


def T(p):
    return tuple(float(x) for x in p)


def stv(o):
    return Raw("(@mkSt FNum %s %s %s %s %s %s)" % (coq(T(o["c"])), coq(o["r"]), coq(T(o["pos"])), coq(T(o["neg"])), coq(T(o["ro"])), coq(T(o["rd"]))))


def coq_check(c, r):
    if c["k"] == "c10.inscribed":
        if "circle" not in r:
            return None
        ci = r["circle"]
        return "check_inscribed %s %s %s %s %s %s %s %s" % (coq([T(q) for q in r["curve"]]), coq(T(c["p0"])), coq(T(c["p1"])), coq(float(c["tol"])),
                                                          coq(T(ci["c"])), coq(float(ci["r"])), coq(T(ci["pos"])), coq(T(ci["neg"])))
    if c["k"] == "c10.orient":
        if r.get("panic"):
            return None
        init = coq([stv(o) for o in r["init"]])
        out = coq([stv(o) for o in r.get("out", [])])
        if c["orient"] == "tmax":
            return "check_orient_tmax %s %s %s" % (init, coq("out" in r), out)
        return "check_orient_dir %s %s %s %s" % (coq(T(c["orient"])), init, coq("out" in r), out)
    if c["k"] != "c10.oriented":
        return None
    # the synthetic stations as the implementation built them (r["init"]); pushes rebuilt the same way
    def mk(v):
        x, y, rad, up = v
        a, b = (x, y - rad), (x, y + rad)
        o, e = (a, b) if up else (b, a)
        return {"c": (x, y), "r": rad, "pos": b if up else a, "neg": a if up else b, "ro": o, "rd": (e[0] - o[0], e[1] - o[1])}
    return "check_oriented %s %s %s %s %s %s %s" % (
        coq([stv(o) for o in r["init"]]), coq(bool(c["reversed"])), coq([stv(mk(p)) for p in c["pushes"]]),
        coq([opt(None if o is None else stv(o)) for o in r["lasts"]]), coq([stv(o) for o in r["taken"]]), coq([stv(o) for o in r["reversed"]]),
        coq(opt(None if r["tmax"] is None else stv(r["tmax"]))))


# ------------------------------------------------------------------ certificates

def seg_dist(p, a, b):
    v = [y - x for x, y in zip(a, b)]
    w = [y - x for x, y in zip(a, p)]
    vv = sum(x * x for x in v)
    t = 0.0 if vv == 0 else max(0.0, min(1.0, sum(x * y for x, y in zip(v, w)) / vv))
    return math.dist(p, [x + t * y for x, y in zip(a, v)])


def dist_poly(p, pts):
    return min(seg_dist(p, a, b) for a, b in zip(pts, pts[1:]))


def hull_ccw(pts):
    P = sorted(set(map(tuple, pts)))
    if len(P) < 3:
        return list(P)
    def half(seq):
        h = []
        for p in seq:
            while len(h) >= 2 and (h[-1][0] - h[-2][0]) * (p[1] - h[-2][1]) - (h[-1][1] - h[-2][1]) * (p[0] - h[-2][0]) <= 0:
                h.pop()
            h.append(p)
        return h
    lo, up = half(P), half(reversed(P))
    return lo[:-1] + up[:-1]


def oracle(c, r):
    if c["k"] == "c10.caliper":
        what = "caliper_chord_line of a generated section (chord %r, camber %r, %d vertices)" % (c["chord"], c["spec"]["camber"], len(c["pts"]))
        if r.get("panic") or r.get("err") or "chord" not in r:
            yield ("caliper-failed", what + " failed or panicked")
            return
        sec = r["section"]
        h = hull_ccw(sec)
        legs = sorted(((math.dist(h[i], h[(i + 1) % len(h)]), h[i], h[(i + 1) % len(h)]) for i in range(len(h))), reverse=True)
        if len(legs) >= 2 and legs[0][0] - legs[1][0] < 1e-9 * c["chord"]:
            return      # two longest legs of the same length: either may be the line of tangency
        _, p1, p2 = legs[0]
        le0 = c["camber"][0]
        a, b = (p1, p2) if math.dist(p1, le0) < math.dist(p2, le0) else (p2, p1)
        d = [(b[0] - a[0]) / math.dist(a, b), (b[1] - a[1]) / math.dist(a, b)]
        proj = lambda p: (p[0] - a[0]) * d[0] + (p[1] - a[1]) * d[1]
        te = max(sec, key=proj)
        le = min(sec, key=proj)
        tol = 1e-9 * c["chord"]
        for nm, got, want in (("leading", r["chord"][0], le), ("trailing", r["chord"][1], te)):
            if abs(proj(got) - proj(want)) > tol:
                yield ("caliper-chord", what + ": the %s end %r lies at %r along the longest hull leg %r -> %r, the extreme point of the section is %r at %r" % (nm, got, proj(got), a, b, list(want), proj(want)))
                return
        for nm, got, src in (("leading", r["tangent"][0], r["chord"][0]), ("trailing", r["tangent"][1], r["chord"][1])):
            w = [a[0] + d[0] * proj(src), a[1] + d[1] * proj(src)]
            if math.dist(got, w) > tol:
                yield ("caliper-tangent", what + ": the %s tangent point %r is not the projection %r of the chord end on the line of tangency" % (nm, got, w))
                return
        return
    if c["k"] == "c10.inscribed":
        what = "inscribed_from_spanning_ray on a section of %d vertices, ray %r -> %r, tolerance %r" % (len(c["pts"]), c["p0"], c["p1"], c["tol"])
        if r.get("panic") or "circle" not in r:
            yield ("inscribed-panic", what + " panicked or failed")
            return
        ci, sec, tol = r["circle"], r["curve"], c["tol"]
        sec = sec + [sec[0]] if math.dist(sec[0], sec[-1]) > 0 else sec
        d = dist_poly(ci["c"], sec)
        # Proofs/Inscribed.v: the distance from the centre to the section is the radius within the tolerance, the contacts are on the section
        if abs(d - ci["r"]) > tol * (1 + 1e-9) + 1e-12 * c["chord"]:
            yield ("inscribed-radius", what + ": centre %r is %r from the section, radius %r" % (ci["c"], d, ci["r"]))
        for nm in ("pos", "neg"):
            if dist_poly(ci[nm], sec) > 1e-9 * c["chord"]:
                yield ("inscribed-contact", what + ": contact %s %r is %r from the section" % (nm, ci[nm], dist_poly(ci[nm], sec)))
            elif abs(math.dist(ci[nm], ci["c"]) - ci["r"]) > tol * (1 + 1e-9) + 1e-12 * c["chord"]:
                yield ("inscribed-contact", what + ": contact %s %r is %r from the centre, radius %r" % (nm, ci[nm], math.dist(ci[nm], ci["c"]), ci["r"]))
        return
    if c["k"] == "c10.oriented":
        for a, b in zip(r["twice"], r["init"]):
            # exact over the reals; in binary64 the ray origin o + d - d may differ from o in the last place
            if a["c"] != b["c"] or a["r"] != b["r"] or a["pos"] != b["pos"] or a["neg"] != b["neg"] or \
               math.dist(a["ro"], b["ro"]) > 1e-12 * (1 + abs(b["ro"][0]) + abs(b["ro"][1])) or math.dist(a["rd"], b["rd"]) > 1e-12 * (1 + abs(b["rd"][0]) + abs(b["rd"][1])):
                yield ("reverse-involutive", "reverse_inscribed_circles twice changed a station: %r -> %r" % (b, a))
                break
        want = len(r["init"]) + len(c["pushes"])
        if len(r["taken"]) != want:
            yield ("oriented-count", "%d stations after %d pushes onto %d" % (len(r["taken"]), len(c["pushes"]), len(r["init"])))
        return
    if c["k"] == "c10.orient":
        if r.get("panic"):
            yield ("orient-panic", "orient_camber_line panicked on %d stations" % len(c["init"]))
            return
        if "out" not in r:
            return
        ini, out = r["init"], r["out"]
        cs = [o["c"] for o in ini]
        same = [o["c"] for o in out] == cs
        rev = [o["c"] for o in out] == cs[::-1]
        if not (same or rev):
            yield ("orient-permutes", "orient_camber_line returned centres %r for %r" % ([o["c"] for o in out], cs))
            return
        if c["orient"] == "tmax":
            # independent computation: arc-length position of the closest point of the centre polyline to the largest centre
            k = max(range(len(ini)), key=lambda i: (ini[i]["r"], -i))
            best, acc, tot = None, 0.0, sum(math.dist(a, b) for a, b in zip(cs, cs[1:]))
            for a, b in zip(cs, cs[1:]):
                d = seg_dist(cs[k], a, b)
                v = [b[0] - a[0], b[1] - a[1]]
                w = [cs[k][0] - a[0], cs[k][1] - a[1]]
                vv = v[0] ** 2 + v[1] ** 2
                t = 0.0 if vv == 0 else max(0.0, min(1.0, (v[0] * w[0] + v[1] * w[1]) / vv))
                if best is None or d < best[0]:
                    best = (d, acc + t * math.sqrt(vv))
                acc += math.sqrt(vv)
            f = best[1] / tot if tot > 0 else 0.0
            if abs(f - 0.5) > 1e-6 and (f > 0.5) != (rev and not same):
                yield ("orient-tmax", "TMaxFwd on %d stations: the largest circle (station %d) sits at %r of the camber length, the list came back %s" % (
                    len(ini), k, f, "reversed" if rev and not same else "unchanged"))
        else:
            d = c["orient"]
            a, b = d[0] * out[0]["c"][0] + d[1] * out[0]["c"][1], d[0] * out[-1]["c"][0] + d[1] * out[-1]["c"][1]
            if a < b - 1e-9 * (abs(a) + abs(b) + 1):
                yield ("orient-direction", "DirectionFwd(%r): the first centre %r is behind the last %r along the direction" % (d, out[0]["c"], out[-1]["c"]))
        return
    if c["k"] != "c10.analyze":
        return
    spec = c["spec"]
    chord = spec["chord"]
    what = "analysis of a generated " + ("hooked " if spec.get("family") == "hook" else "") + "section (chord %r, camber %r, tmax %r at %r, end radius %r, %d vertices, %s, leading=%s trailing=%s orient=%s face=%s)" % (
        chord, spec["camber"], spec["tmax"], spec["xt"], spec["r_end"], len(c["pts"]), "ccw" if spec["ccw"] else "cw", c["leading"], c["trailing"],
        "tmax" if c["orient"] == "tmax" else "dir", "detect" if c["face"] == "detect" else "dir")
    if r.get("err_section"):
        return
    if r.get("timeout"):
        yield ("analysis-hang", what + " did not finish")
        return
    if r.get("panic"):
        yield ("analysis-panic", what + " panicked")
        return
    if r.get("err"):
        return          # not accepted by the chosen methods: the property speaks about accepted sections
    sec = r["section"]
    tol = c["core_tol"]
    st = r["stations"]
    # ConvergeTangentEdge: when its fitted forward arc is wrong the edge point leaves the section and the stations beyond
    # it are discarded; everything downstream (coverage, maximum thickness) is then wrong for the same reason
    for nm, meth in (("le", c["leading"]), ("te", c["trailing"])):
        e = r[nm]
        if meth == "converge" and e is not None and dist_poly(e["p"], sec) > 100 * tol:
            yield ("converge-edge-off-section", what + ": ConvergeTangentEdge placed the %s edge at %r, %r from the section, and kept %d stations" % (
                "leading" if nm == "le" else "trailing", e["p"], dist_poly(e["p"], sec), len(st)))
            return
    if len(st) < 3:
        yield ("stations-few", what + ": %d stations" % len(st))
        return
    # 1. inscribed circles
    for i, s in enumerate(st):
        d = dist_poly(s["c"], sec)
        forged = (i == 0 and c["leading"] == "const") or (i == len(st) - 1 and c["trailing"] == "const")
        if abs(d - s["r"]) > tol and forged:
            # ConstRadiusEdge manufactures its end station from the smallest arc that fits five or more section vertices within the
            # tolerance; on densely sampled sections that need not be the edge arc
            yield ("const-edge-station-not-inscribed", what + ": the end station manufactured by ConstRadiusEdge (centre %r, radius %r) is %r from the section" % (s["c"], s["r"], d))
            return
        if abs(d - s["r"]) > tol:
            yield ("station-inscribed", what + ": station %d centre %r is %r from the section, radius %r" % (i, s["c"], d, s["r"]))
            return
        for nm in ("pos", "neg"):
            if dist_poly(s[nm], sec) > 1e-6 * chord or abs(math.dist(s[nm], s["c"]) - s["r"]) > tol:
                yield ("station-contact", what + ": station %d contact %s %r is %r from the centre (radius %r), %r from the section" % (i, nm, s[nm], math.dist(s[nm], s["c"]), s["r"], dist_poly(s[nm], sec)))
                return
    # 2. generated medial axis: map centres back to the generating frame
    ang, tx, ty = spec["pose"]
    ca, sa = math.cos(ang), math.sin(ang)
    _, law = make_section(spec)
    hook = spec.get("family") == "hook"
    xs = []
    worst_c, worst_r = 0.0, 0.0
    # where the stations are compared with the generating medial axis: away from the ends, and - on a section cut open unevenly -
    # at least one maximum thickness away from the station where the shorter surface stops (beyond it the medial axis of the
    # truncated shape is not the generating camber curve)
    med_lo, med_hi = 0.02 * chord, 0.98 * chord
    if spec.get("cut") and spec.get("open_end"):
        mm = spec["n"] // 2
        kk = max(spec["cut"])
        if spec["open_end"] == "te":
            med_hi = min(med_hi, chord * 0.5 * (1 - math.cos(math.pi * (mm - kk) / mm)) - spec["tmax"] * chord)
        else:
            med_lo = max(med_lo, chord * 0.5 * (1 - math.cos(math.pi * kk / mm)) + spec["tmax"] * chord)
    for s in st:
        px, py = s["c"][0] - tx, s["c"][1] - ty
        x, off = camber_param(spec, law, [ca * px + sa * py, -sa * px + ca * py])
        xs.append(x)
        if med_lo < x < med_hi:
            worst_c = max(worst_c, off)
            worst_r = max(worst_r, abs(s["r"] - law["r"](x)))
    # FitRadiusEdge on a section bent through a right angle or more: the portion "beyond the last station" it fits its circle to can
    # take in the other arm of the hook, the fitted centre then lies deep inside the blade and the stations it pushes wander
    # (mid-blade, the far end cap, back) before they settle at the near cap - they all stay in the returned list (known finding)
    if hook and "fit" in (c["leading"], c["trailing"]):
        jumps = [i for i in range(len(st) - 1) if math.dist(st[i]["c"], st[i + 1]["c"]) > 2 * max(st[i]["r"], st[i + 1]["r"])]
        if jumps:
            yield ("fit-edge-wanders", what + ": %d of the %d consecutive station pairs are more than two radii apart (first after station %d: %r -> %r)" % (
                len(jumps), len(st) - 1, jumps[0], st[jumps[0]]["c"], st[jumps[0] + 1]["c"]))
            return
    # contacts on opposite sides of the camber direction (away from the end caps, where every direction is a contact)
    for i in range(1, len(st) - 1):
        if not (0.05 * chord < xs[i] < 0.95 * chord):
            continue
        t = [st[i + 1]["c"][0] - st[i - 1]["c"][0], st[i + 1]["c"][1] - st[i - 1]["c"][1]]
        cp = lambda q: t[0] * (q[1] - st[i]["c"][1]) - t[1] * (q[0] - st[i]["c"][0])
        if cp(st[i]["pos"]) * cp(st[i]["neg"]) >= 0:
            yield ("station-sides", what + ": station %d contacts %r and %r are on the same side of the camber direction" % (i, st[i]["pos"], st[i]["neg"]))
            return
    # the medial axis of an envelope section ends at the centre of its end cap, where the radius is the end radius: no inscribed
    # circle of a closed end is smaller (the caps are drawn with 12 chords, which takes cos(pi/24) off), so a smaller station has
    # its centre beyond the end of the medial axis, between the cap centre and the tip
    if not hook:
        re_abs = spec["r_end"] * chord
        floor_r = re_abs * math.cos(math.pi / 24) - 0.002 * re_abs - 20 * max(tol, c["core_tol"])
        for i, s in enumerate(st):
            if spec.get("open_end") == "te" and xs[i] > 0.5 * chord or spec.get("open_end") == "le" and xs[i] < 0.5 * chord:
                continue
            # the curvature-tracing locators (trace, and converge which starts from it) back-fill stations from the last medial
            # station to the edge point on the cap itself: those are not medial stations by design
            # (which end the analysis took for the leading one is read off the station order)
            if c["leading" if (xs[i] < 0.5 * chord) == (xs[-1] > xs[0]) else "trailing"] in ("trace", "converge"):
                continue
            # the arc-fitting locators place their end station by a fit, not by the march: const-radius manufactures it from a fitted
            # arc (listed finding when that goes wrong), fit-radius stops half-stepping towards a fitted centre once the fit is
            # within tolerance, which can leave it a fraction of a percent of the radius past the cap centre
            if i in (0, len(st) - 1) and (c["leading"] in ("const", "fit") or c["trailing"] in ("const", "fit")):
                continue
            if s["r"] < floor_r:
                yield ("medial-end-radius", what + ": station %d (centre %r) has radius %r, below the end radius %r of the section: its centre lies beyond the end of the medial axis" % (i, s["c"], s["r"], re_abs))
                break
    tm = spec["tmax"] * chord
    if worst_c > 0.02 * tm + 5 * tol:
        yield ("medial-centres", what + ": a station centre is %r off the generating camber curve (max thickness %r)" % (worst_c, tm))
    if worst_r > 0.02 * tm + 5 * tol:
        yield ("medial-radii", what + ": a station radius is %r off the generating radius law (max thickness %r)" % (worst_r, tm))
    # 3. monotone from leading to trailing edge; leading edge = the x = 0 end when the orientation is known
    # inside an end cap of radius r the distance function is flat to second order: a centre is located only to
    # about sqrt(2 r tol) along the camber direction, so that much disorder is discretisation, not a defect
    slack = 2 * math.sqrt(2 * spec["r_end"] * chord * tol) + 10 * tol
    inc = all(b > a - slack for a, b in zip(xs, xs[1:])) and xs[-1] > xs[0]
    dec = all(b < a + slack for a, b in zip(xs, xs[1:])) and xs[-1] < xs[0]
    if not (inc or dec):
        yield ("stations-monotone", what + ": stations do not advance monotonically along the camber curve")
    elif c["orient"] != "tmax" and not inc:
        yield ("stations-direction", what + ": stations run from the trailing to the leading edge although the forward direction was given")
    elif c["orient"] == "tmax" and spec["xt"] <= (0.45 if hook else 0.4) and not inc:
        yield ("stations-direction", what + ": maximum thickness is at %r of the chord but stations start at the far end" % spec["xt"])
    # maximum thickness recovered
    if abs(2 * r["tmax"]["r"] - tm) > 0.02 * tm + 5 * tol:
        yield ("tmax-value", what + ": maximum thickness %r, law %r" % (2 * r["tmax"]["r"], tm))
    if r["thk_max"] is not None and abs(abs(r["thk_max"]) - 2 * r["tmax"]["r"]) > 0.02 * tm + 5 * tol:
        yield ("tmax-gauge", what + ": get_thickness_max %r vs largest inscribed diameter %r" % (r["thk_max"], 2 * r["tmax"]["r"]))
    # unchanged by reversing the vertex order (open sections are analysed twice)
    rv = r.get("rev")
    if rv is not None:
        if rv.get("panic"):
            yield ("reverse-panic", what + ": the same section with reversed vertex order panicked")
        elif rv.get("err"):
            # a knife edge, not a disagreement: on an unevenly cut open end the last station can touch the very end vertex of the
            # section; that vertex is then exactly abreast of the camber end (its projection on the camber direction is zero up
            # to rounding) and OpenIntersectGap's test `max_dist < 0` is decided by the last bit, one way or the other
            ends = (sec[0], sec[-1])
            touch = any(math.dist(s0[nm], e) <= 10 * tol for s0 in (st[0], st[-1]) for nm in ("pos", "neg") for e in ends)
            if not ("Failed to find intersection with open section edge" in str(rv["err"]) and not c["closed"] and touch):
                yield ("reverse-invariant", what + ": accepted, but rejected (%s) with its vertices in the opposite order" % rv["err"])
        else:
            # compared only for the edge locators whose answer is determined by the section (the open end, and the camber / section
            # intersection); the curvature- and arc-fitting locators pick one of many equally good points on a constant-radius cap
            det = {"le": c["leading"] in ("open", "open_gap", "intersect"), "te": c["trailing"] in ("open", "open_gap", "intersect")}
            for nm in ("le", "te"):
                if not det[nm]:
                    continue
                if (r[nm] is None) != (rv[nm] is None):
                    yield ("reverse-invariant", what + ": %s edge present in one vertex order only" % nm)
                # the open-gap point is extrapolated from the last stations (each good to the tolerance) over several times their
                # spacing: 20 tolerances there, 5 elsewhere
                elif r[nm] is not None and math.dist(r[nm]["p"], rv[nm]["p"]) > (20 if c["leading" if nm == "le" else "trailing"] == "open_gap" else 5) * tol:
                    yield ("reverse-invariant", what + ": %s edge point %r, with the vertex order reversed %r (%r apart, tolerance %r)" % (
                        "leading" if nm == "le" else "trailing", r[nm]["p"], rv[nm]["p"], math.dist(r[nm]["p"], rv[nm]["p"]), tol))
            if det["le"] and det["te"] and abs(r["camber_length"] - rv["camber_length"]) > 5 * tol:
                yield ("reverse-invariant", what + ": camber length %r, with the vertex order reversed %r" % (r["camber_length"], rv["camber_length"]))
            if abs(rv["tmax"]["r"] - r["tmax"]["r"]) > 5 * tol:
                yield ("reverse-invariant", what + ": maximum radius %r, with the vertex order reversed %r" % (r["tmax"]["r"], rv["tmax"]["r"]))
    # gauge thicknesses: both gauge points on the section (one per face), a radius gauge at that radius from the leading
    # (positive) or trailing (negative) edge point, an on-camber gauge across the camber point at that length and, where the
    # radius law is flat, equal to the law's thickness there
    for (kind, x), gz in zip(c.get("gauges", []), r.get("gauges", [])):
        gw = what + ": get_thickness(%s(%r))" % ("OnCamber" if kind == "camber" else "Radius", x)
        if gz.get("panic"):
            yield ("gauge-panic", gw + " panicked")
            continue
        if gz.get("err"):
            if r["upper"] is not None and r["lower"] is not None and (kind == "camber" or (r["le"] if x > 0 else r["te"]) is not None):
                yield ("gauge-failed", gw + " failed (%s) although both faces and the edge point exist" % gz["err"])
            continue
        a, b = gz["a"], gz["b"]
        if abs(abs(gz["value"]) - math.dist(a, b)) > 1e-9 * chord:
            yield ("gauge-value", gw + " reports %r for points %r apart" % (gz["value"], math.dist(a, b)))
        if max(dist_poly(a, sec), dist_poly(b, sec)) > 1e-6 * chord:
            yield ("gauge-on-section", gw + ": gauge points %r, %r are %r, %r from the section" % (a, b, dist_poly(a, sec), dist_poly(b, sec)))
            continue
        if r["upper"] is not None and r["lower"] is not None and len(r["upper"]["points"]) > 1 and len(r["lower"]["points"]) > 1:
            if dist_poly(b, r["upper"]["points"]) > 1e-6 * chord or dist_poly(a, r["lower"]["points"]) > 1e-6 * chord:
                yield ("gauge-faces", gw + ": the gauge points are not (lower, upper): %r is %r from the lower face, %r is %r from the upper face" % (
                    a, dist_poly(a, r["lower"]["points"]), b, dist_poly(b, r["upper"]["points"])))
        if kind == "radius":
            e = r["le"] if x > 0 else r["te"]
            if e is not None:
                for q in (a, b):
                    if abs(math.dist(q, e["p"]) - abs(x)) > 1e-6 * chord:
                        yield ("gauge-radius", gw + ": gauge point %r is %r from the %s edge point %r" % (q, math.dist(q, e["p"]), "leading" if x > 0 else "trailing", e["p"]))
                        break
        else:
            cam = r["camber"]
            ln = x if x >= 0 else r["camber_length"] + x
            acc, cp = 0.0, None
            for u, v in zip(cam, cam[1:]):
                d = math.dist(u, v)
                if acc + d >= ln and d > 0:
                    f = (ln - acc) / d
                    cp = [u[0] + f * (v[0] - u[0]), u[1] + f * (v[1] - u[1])]
                    break
                acc += d
            if cp is not None and seg_dist(cp, a, b) > 1e-6 * chord:
                yield ("gauge-camber-point", gw + ": the gauge line %r - %r passes %r from the camber point %r at that length" % (a, b, seg_dist(cp, a, b), cp))
            elif cp is not None and inc:
                px, py = cp[0] - tx, cp[1] - ty
                gx, _ = camber_param(spec, law, [ca * px + sa * py, -sa * px + ca * py])
                h = 1e-4 * chord
                if 0.15 * chord < gx < 0.85 * chord and abs(law["r"](gx + h) - law["r"](gx - h)) / (2 * h) < 0.1:
                    if abs(math.dist(a, b) - 2 * law["r"](gx)) > 0.05 * tm + 5 * tol:
                        yield ("gauge-recovered", gw + ": thickness %r at chord position %r, radius law gives %r" % (math.dist(a, b), gx, 2 * law["r"](gx)))
    # 4. edges on the section at the ends of the camber curve
    cam = r["camber"]
    for nm, e, end in (("leading", r["le"], cam[0]), ("trailing", r["te"], cam[-1])):
        if e is None:
            continue
        # an edge point placed on an arc fitted through the vertices (converge, fit, const) lies off the polyline by up to the
        # sagitta of the local segments, s^2 / (8 r), however tight the tolerances: allowed twice over
        seg_near = sorted((seg_dist(e["p"], a, b), math.dist(a, b)) for a, b in zip(sec, sec[1:] + sec[:1]))[:3]
        sag = max(x[1] for x in seg_near) ** 2 / (4 * max(spec["r_end"] * chord, 1e-12)) if c["leading" if nm == "leading" else "trailing"] in ("converge", "fit", "const") else 0.0
        if e["kind"] != "open" and dist_poly(e["p"], sec) > 10 * tol + sag:
            yield ("edge-on-section", what + ": %s edge point %r is %r from the section" % (nm, e["p"], dist_poly(e["p"], sec)))
        if math.dist(e["p"], end) > 1e-6 * chord:
            yield ("edge-camber-end", what + ": %s edge point %r is not the %s end of the camber curve %r" % (nm, e["p"], "first" if nm == "leading" else "last", end))
    if inc and r["le"] is not None and r["te"] is not None and not hook:
        lx = (lambda p: ca * (p[0] - tx) + sa * (p[1] - ty))
        if lx(r["le"]["p"]) > lx(r["te"]["p"]):
            yield ("edge-swapped", what + ": leading edge %r lies beyond the trailing edge %r along the chord" % (r["le"]["p"], r["te"]["p"]))
    # 5. upper / lower partition the perimeter between the edge points, upper on the requested side
    up, lo = r["upper"], r["lower"]
    if up is not None and lo is not None:
        if abs(up["length"] + lo["length"] - r["perimeter"]) > 1e-4 * r["perimeter"]:
            yield ("faces-partition", what + ": upper %r + lower %r != perimeter %r" % (up["length"], lo["length"], r["perimeter"]))
        # compared at mid chord in the section's own frame (the two faces need not span the same range on an unevenly cut section)
        def at_mid(cv):
            best = None
            for q in cv["points"]:
                ux, uy = ca * (q[0] - tx) + sa * (q[1] - ty), -sa * (q[0] - tx) + ca * (q[1] - ty)
                if best is None or abs(ux - 0.5 * chord) < best[0]:
                    best = (abs(ux - 0.5 * chord), uy)
            return best[1]
        # FaceOrient::Detect goes by the curvature of the extracted camber line: on an unevenly cut section that line bends towards the
        # longer surface near the open end, so the detected side is only demanded for level cuts
        # nor where an edge is located by maximum curvature (trace): the generated ends are circular arcs, of constant curvature, the
        # located point wanders along the arc (by up to the end radius) and tilts the chord the detection measures from
        if ((spec["camber"] > 0 and not spec.get("cut") and "trace" not in (c["leading"], c["trailing"])) or c["face"] != "detect") and not hook:
            if at_mid(up) < at_mid(lo):
                yield ("faces-side", what + ": the surface reported as upper lies below the lower one along the upper direction")
