"""C10  Airfoil analysis yields inscribed circles and recovers a known medial axis."""
import math
import common as C
from common import Some, Nat, Raw, opt, coq

LEVEL = "proof"
COQ_IMPORTS = ["Tie.C10"]
RULE = ("sections generated as the envelope of circles with a known radius law (maximum thickness 4-20% of chord at 25-60% of the camber length, "
        "end radii 0.5-3% of chord) along a known parabolic camber curve (0-8% camber), chord 0.3..100, 150-600 vertices, both windings, rotated "
        "start vertex, arbitrary rigid pose; every CamberOrient x the applicable EdgeLocate methods x both FaceOrient; container logic on synthetic "
        "station lists with random push histories. distinct = distinct (tag, input)")
TRUSTED_BASE = [
    "Coq 8.16.1 kernel and vm_compute",
    "hand-written model coq/Model/Airfoil.v of the container and ordering logic (OrientedCircles push/last/take, reverse_inscribed_circles, find_tmax_circle), tied by differential correspondence Tie/C10.v through the public airfoil::helpers API",
    "the geometric claims (inscribed circles, contacts, monotone stations, edge points, upper/lower partition, recovery of the known medial axis) are certified per analysed section by tools/props/c10.py using an exhaustive point-to-section distance",
]
ASSUMPTIONS = [
    "partial: the camber extraction (bisection against parry's closest-point query, refinement loop) is certified per explored section, not proved; its termination is only watched (watchdog)",
    "recovery tolerances: centres within 2% of the maximum thickness of the generating camber curve, radii within 2% of the maximum thickness of the law (discretisation of the polyline)",
]


def section(chord, camber, tmax, xt, r_end, n, ccw, roll, pose, open_end=None):
    """closed polyline: envelope of circles of radius r(x) centred on the parabola y = 4 camber x (1 - x/c)"""
    c = chord
    p = math.log(0.5) / math.log(xt)            # u = (x/c)^p puts the maximum at x/c = xt
    def r(x):
        u = max(0.0, min(1.0, x / c)) ** p
        return r_end * c + (tmax * c / 2 - r_end * c) * math.sin(math.pi * u) ** 2
    def y(x):
        return 4 * camber * x * (1 - x / c)
    def yp(x):
        return 4 * camber * (1 - 2 * x / c)
    def env(x, sign):
        h = 1e-6 * c
        rx = (r(min(c, x + h)) - r(max(0.0, x - h))) / (min(c, x + h) - max(0.0, x - h))
        g = math.sqrt(1 + yp(x) ** 2)
        rs = max(-0.999, min(0.999, rx / g))
        T = (1 / g, yp(x) / g)
        Nn = (-yp(x) / g, 1 / g)
        rr = r(x)
        k = math.sqrt(1 - rs * rs)
        return [x + rr * (-rs * T[0] + sign * k * Nn[0]), y(x) + rr * (-rs * T[1] + sign * k * Nn[1])]
    m = n // 2
    xs = [c * 0.5 * (1 - math.cos(math.pi * i / m)) for i in range(m + 1)]       # clustered at the ends
    upper = [env(x, 1) for x in xs]
    lower = [env(x, -1) for x in xs]
    def cap(cx, cy, a0, a1, k):
        return [[cx + r_end * c * math.cos(a0 + (a1 - a0) * i / k), cy + r_end * c * math.sin(a0 + (a1 - a0) * i / k)] for i in range(1, k)]
    # trailing cap: from the upper end to the lower end around the far (+T) side
    gte = math.atan2(yp(c), 1.0)
    te = cap(c, y(c), gte + math.pi / 2, gte - math.pi / 2, 12)
    gle = math.atan2(yp(0.0), 1.0)
    le = cap(0.0, y(0.0), gle - math.pi / 2, gle - 3 * math.pi / 2, 12)
    if open_end == "te":        # open at the trailing end: lower (TE -> LE), leading cap, upper (LE -> TE)
        pts = lower[::-1] + le + upper
    elif open_end == "le":      # open at the leading end
        pts = upper + te + lower[::-1]
    else:
        pts = upper + te + lower[::-1] + le          # clockwise
    if ccw:
        pts = pts[::-1]
    if open_end is None:
        k = roll % len(pts)
        pts = pts[k:] + pts[:k]
    ang, tx, ty = pose
    ca, sa = math.cos(ang), math.sin(ang)
    return [[ca * px - sa * py + tx, sa * px + ca * py + ty] for px, py in pts], dict(r=r, y=y, yp=yp, c=c)


def gen_analyze(rng):
    chord = rng.choice([0.3, 1.0, 1.0, 25.0, 100.0])
    spec = {"chord": chord, "camber": rng.choice([0.0, 0.02, 0.05, 0.08]), "tmax": rng.choice([0.04, 0.08, 0.12, 0.2]), "xt": rng.choice([0.25, 0.3, 0.4, 0.5, 0.6]),
            "r_end": rng.choice([0.005, 0.01, 0.03]), "n": rng.choice([150, 300, 600]), "ccw": rng.random() < 0.5, "roll": rng.randrange(600),
            "pose": [rng.choice([0.0, rng.uniform(-3, 3)]), rng.choice([0.0, rng.uniform(-5, 5) * chord]), rng.choice([0.0, rng.uniform(-5, 5) * chord])]}
    if spec["r_end"] * 2 >= spec["tmax"] * 0.8:
        spec["r_end"] = spec["tmax"] * 0.1
    spec["open_end"] = rng.choice([None, None, None, "te", "le"])
    pts, _ = section(**spec)
    ang = spec["pose"][0]
    fwd = [-math.cos(ang), -math.sin(ang)]            # towards the leading edge (x = 0 end)
    up = [-math.sin(ang), math.cos(ang)]
    lead = rng.choice(["intersect", "converge", "const", "fit", "trace"])
    trail = rng.choice(["intersect", "converge", "const"])
    if spec["open_end"] == "te":
        trail = rng.choice(["open", "open_gap"])
    elif spec["open_end"] == "le":
        lead = rng.choice(["open", "open_gap"])
    # an open section is analysed with the forward direction given (which end is open is part of the request)
    return {"k": "c10.analyze", "closed": spec["open_end"] is None, "pts": pts, "tol": 1e-6 * chord, "core_tol": 1e-4 * chord,
            "orient": fwd if spec["open_end"] else rng.choice(["tmax", fwd]), "face": rng.choice(["detect", up]),
            "leading": lead, "trailing": trail, "spec": spec, "timeout_ms": 20000,
            "gauges": [["camber", 0.3 * chord], ["camber", -0.3 * chord], ["camber", 0.5 * chord], ["radius", 0.2 * chord], ["radius", -0.2 * chord], ["radius", 0.45 * chord], ["radius", -0.45 * chord]]}


def gen_oriented(rng):
    def st():
        return [rng.uniform(-5, 5), rng.uniform(-1, 1), rng.uniform(0.05, 1.0), rng.random() < 0.5]
    return {"k": "c10.oriented", "init": [st() for _ in range(rng.choice([0, 1, 3, 8]))], "reversed": rng.random() < 0.5, "pushes": [st() for _ in range(rng.randint(0, 5))]}


def corpus():
    return []


def generate(rng, tier):
    n = 50 if tier == "quick" else 600
    return [gen_analyze(rng) for _ in range(n)] + [gen_oriented(rng) for _ in range(2 * n)]


def tag(c, r):
    if c["k"] == "c10.oriented":
        return "%s:%s:%d" % (c["k"], c["reversed"], len(c["pushes"]))
    st = "timeout" if r.get("timeout") else "panic" if r.get("panic") else "err" if r.get("err") else "ok"
    return "%s:%s:%s:%s:%s" % (c["k"], c["leading"], c["trailing"], "tmax" if c["orient"] == "tmax" else "dir", st)


def T(p):
    return tuple(float(x) for x in p)


def stv(o):
    return Raw("(@mkSt FNum %s %s %s %s %s %s)" % (coq(T(o["c"])), coq(o["r"]), coq(T(o["pos"])), coq(T(o["neg"])), coq(T(o["ro"])), coq(T(o["rd"]))))


def coq_check(c, r):
    if c["k"] != "c10.oriented":
        return None
    # the synthetic stations as the implementation built them (r["init"]); pushes rebuilt the same way
    def mk(v):
        x, y, rad, up = v
        a, b = (x, y - rad), (x, y + rad)
        o, e = (a, b) if up else (b, a)
        return {"c": (x, y), "r": rad, "pos": b if up else a, "neg": a if up else b, "ro": o, "rd": (e[0] - o[0], e[1] - o[1])}
    return "check_oriented %s %s %s %s %s %s %s" % (
        coq([stv(o) for o in r["init"]]), coq(bool(c["reversed"])), coq([stv(mk(p)) for p in c["pushes"]]),
        coq([opt(None if o is None else stv(o)) for o in r["lasts"]]), coq([stv(o) for o in r["taken"]]), coq([stv(o) for o in r["reversed"]]),
        coq(opt(None if r["tmax"] is None else stv(r["tmax"]))))


# ------------------------------------------------------------------ certificates

def seg_dist(p, a, b):
    v = [y - x for x, y in zip(a, b)]
    w = [y - x for x, y in zip(a, p)]
    vv = sum(x * x for x in v)
    t = 0.0 if vv == 0 else max(0.0, min(1.0, sum(x * y for x, y in zip(v, w)) / vv))
    return math.dist(p, [x + t * y for x, y in zip(a, v)])


def dist_poly(p, pts):
    return min(seg_dist(p, a, b) for a, b in zip(pts, pts[1:]))


def oracle(c, r):
    if c["k"] == "c10.oriented":
        for a, b in zip(r["twice"], r["init"]):
            # exact over the reals; in binary64 the ray origin o + d - d may differ from o in the last place
            if a["c"] != b["c"] or a["r"] != b["r"] or a["pos"] != b["pos"] or a["neg"] != b["neg"] or \
               math.dist(a["ro"], b["ro"]) > 1e-12 * (1 + abs(b["ro"][0]) + abs(b["ro"][1])) or math.dist(a["rd"], b["rd"]) > 1e-12 * (1 + abs(b["rd"][0]) + abs(b["rd"][1])):
                yield ("reverse-involutive", "reverse_inscribed_circles twice changed a station: %r -> %r" % (b, a))
                break
        want = len(r["init"]) + len(c["pushes"])
        if len(r["taken"]) != want:
            yield ("oriented-count", "%d stations after %d pushes onto %d" % (len(r["taken"]), len(c["pushes"]), len(r["init"])))
        return
    if c["k"] != "c10.analyze":
        return
    spec = c["spec"]
    chord = spec["chord"]
    what = "analysis of a generated section (chord %r, camber %r, tmax %r at %r, end radius %r, %d vertices, %s, leading=%s trailing=%s orient=%s face=%s)" % (
        chord, spec["camber"], spec["tmax"], spec["xt"], spec["r_end"], len(c["pts"]), "ccw" if spec["ccw"] else "cw", c["leading"], c["trailing"],
        "tmax" if c["orient"] == "tmax" else "dir", "detect" if c["face"] == "detect" else "dir")
    if r.get("err_section"):
        return
    if r.get("timeout"):
        yield ("analysis-hang", what + " did not finish")
        return
    if r.get("panic"):
        yield ("analysis-panic", what + " panicked")
        return
    if r.get("err"):
        return          # not accepted by the chosen methods: the property speaks about accepted sections
    sec = r["section"]
    tol = c["core_tol"]
    st = r["stations"]
    # ConvergeTangentEdge: when its fitted forward arc is wrong the edge point leaves the section and the stations beyond
    # it are discarded; everything downstream (coverage, maximum thickness) is then wrong for the same reason
    for nm, meth in (("le", c["leading"]), ("te", c["trailing"])):
        e = r[nm]
        if meth == "converge" and e is not None and dist_poly(e["p"], sec) > 100 * tol:
            yield ("converge-edge-off-section", what + ": ConvergeTangentEdge placed the %s edge at %r, %r from the section, and kept %d stations" % (
                "leading" if nm == "le" else "trailing", e["p"], dist_poly(e["p"], sec), len(st)))
            return
    if len(st) < 3:
        yield ("stations-few", what + ": %d stations" % len(st))
        return
    # 1. inscribed circles
    for i, s in enumerate(st):
        d = dist_poly(s["c"], sec)
        if abs(d - s["r"]) > 10 * tol:
            yield ("station-inscribed", what + ": station %d centre %r is %r from the section, radius %r" % (i, s["c"], d, s["r"]))
            return
        for nm in ("pos", "neg"):
            if dist_poly(s[nm], sec) > 1e-6 * chord or abs(math.dist(s[nm], s["c"]) - s["r"]) > 5 * tol:
                yield ("station-contact", what + ": station %d contact %s %r is %r from the centre (radius %r), %r from the section" % (i, nm, s[nm], math.dist(s[nm], s["c"]), s["r"], dist_poly(s[nm], sec)))
                return
    # 2. generated medial axis: map centres back to the generating frame
    ang, tx, ty = spec["pose"]
    ca, sa = math.cos(ang), math.sin(ang)
    _, law = section(**spec)
    xs = []
    worst_c, worst_r = 0.0, 0.0
    for s in st:
        px, py = s["c"][0] - tx, s["c"][1] - ty
        x, yy = ca * px + sa * py, -sa * px + ca * py
        xs.append(x)
        if 0.02 * chord < x < 0.98 * chord:
            worst_c = max(worst_c, abs(yy - law["y"](x)))
            worst_r = max(worst_r, abs(s["r"] - law["r"](x)))
    # contacts on opposite sides of the camber direction (away from the end caps, where every direction is a contact)
    for i in range(1, len(st) - 1):
        if not (0.05 * chord < xs[i] < 0.95 * chord):
            continue
        t = [st[i + 1]["c"][0] - st[i - 1]["c"][0], st[i + 1]["c"][1] - st[i - 1]["c"][1]]
        cp = lambda q: t[0] * (q[1] - st[i]["c"][1]) - t[1] * (q[0] - st[i]["c"][0])
        if cp(st[i]["pos"]) * cp(st[i]["neg"]) >= 0:
            yield ("station-sides", what + ": station %d contacts %r and %r are on the same side of the camber direction" % (i, st[i]["pos"], st[i]["neg"]))
            return
    tm = spec["tmax"] * chord
    if worst_c > 0.02 * tm + 5 * tol:
        yield ("medial-centres", what + ": a station centre is %r off the generating camber curve (max thickness %r)" % (worst_c, tm))
    if worst_r > 0.02 * tm + 5 * tol:
        yield ("medial-radii", what + ": a station radius is %r off the generating radius law (max thickness %r)" % (worst_r, tm))
    # 3. monotone from leading to trailing edge; leading edge = the x = 0 end when the orientation is known
    # inside an end cap of radius r the distance function is flat to second order: a centre is located only to
    # about sqrt(2 r tol) along the camber direction, so that much disorder is discretisation, not a defect
    slack = 2 * math.sqrt(2 * spec["r_end"] * chord * tol) + 10 * tol
    inc = all(b > a - slack for a, b in zip(xs, xs[1:])) and xs[-1] > xs[0]
    dec = all(b < a + slack for a, b in zip(xs, xs[1:])) and xs[-1] < xs[0]
    if not (inc or dec):
        yield ("stations-monotone", what + ": stations do not advance monotonically along the camber curve")
    elif c["orient"] != "tmax" and not inc:
        yield ("stations-direction", what + ": stations run from the trailing to the leading edge although the forward direction was given")
    elif c["orient"] == "tmax" and spec["xt"] <= 0.4 and not inc:
        yield ("stations-direction", what + ": maximum thickness is at %r of the chord but stations start at the far end" % spec["xt"])
    # maximum thickness recovered
    if abs(2 * r["tmax"]["r"] - tm) > 0.02 * tm + 5 * tol:
        yield ("tmax-value", what + ": maximum thickness %r, law %r" % (2 * r["tmax"]["r"], tm))
    if r["thk_max"] is not None and abs(abs(r["thk_max"]) - 2 * r["tmax"]["r"]) > 0.02 * tm + 5 * tol:
        yield ("tmax-gauge", what + ": get_thickness_max %r vs largest inscribed diameter %r" % (r["thk_max"], 2 * r["tmax"]["r"]))
    # gauge thicknesses: both gauge points on the section (one per face), a radius gauge at that radius from the leading
    # (positive) or trailing (negative) edge point, an on-camber gauge across the camber point at that length and, where the
    # radius law is flat, equal to the law's thickness there
    for (kind, x), gz in zip(c.get("gauges", []), r.get("gauges", [])):
        gw = what + ": get_thickness(%s(%r))" % ("OnCamber" if kind == "camber" else "Radius", x)
        if gz.get("panic"):
            yield ("gauge-panic", gw + " panicked")
            continue
        if gz.get("err"):
            if r["upper"] is not None and r["lower"] is not None and (kind == "camber" or (r["le"] if x > 0 else r["te"]) is not None):
                yield ("gauge-failed", gw + " failed (%s) although both faces and the edge point exist" % gz["err"])
            continue
        a, b = gz["a"], gz["b"]
        if abs(abs(gz["value"]) - math.dist(a, b)) > 1e-9 * chord:
            yield ("gauge-value", gw + " reports %r for points %r apart" % (gz["value"], math.dist(a, b)))
        if max(dist_poly(a, sec), dist_poly(b, sec)) > 1e-6 * chord:
            yield ("gauge-on-section", gw + ": gauge points %r, %r are %r, %r from the section" % (a, b, dist_poly(a, sec), dist_poly(b, sec)))
            continue
        if r["upper"] is not None and r["lower"] is not None and len(r["upper"]["points"]) > 1 and len(r["lower"]["points"]) > 1:
            if dist_poly(b, r["upper"]["points"]) > 1e-6 * chord or dist_poly(a, r["lower"]["points"]) > 1e-6 * chord:
                yield ("gauge-faces", gw + ": the gauge points are not (lower, upper): %r is %r from the lower face, %r is %r from the upper face" % (
                    a, dist_poly(a, r["lower"]["points"]), b, dist_poly(b, r["upper"]["points"])))
        if kind == "radius":
            e = r["le"] if x > 0 else r["te"]
            if e is not None:
                for q in (a, b):
                    if abs(math.dist(q, e["p"]) - abs(x)) > 1e-6 * chord:
                        yield ("gauge-radius", gw + ": gauge point %r is %r from the %s edge point %r" % (q, math.dist(q, e["p"]), "leading" if x > 0 else "trailing", e["p"]))
                        break
        else:
            cam = r["camber"]
            ln = x if x >= 0 else r["camber_length"] + x
            acc, cp = 0.0, None
            for u, v in zip(cam, cam[1:]):
                d = math.dist(u, v)
                if acc + d >= ln and d > 0:
                    f = (ln - acc) / d
                    cp = [u[0] + f * (v[0] - u[0]), u[1] + f * (v[1] - u[1])]
                    break
                acc += d
            if cp is not None and seg_dist(cp, a, b) > 1e-6 * chord:
                yield ("gauge-camber-point", gw + ": the gauge line %r - %r passes %r from the camber point %r at that length" % (a, b, seg_dist(cp, a, b), cp))
            elif cp is not None and inc:
                px, py = cp[0] - tx, cp[1] - ty
                gx = ca * px + sa * py
                h = 1e-4 * chord
                if 0.15 * chord < gx < 0.85 * chord and abs(law["r"](gx + h) - law["r"](gx - h)) / (2 * h) < 0.1:
                    if abs(math.dist(a, b) - 2 * law["r"](gx)) > 0.05 * tm + 5 * tol:
                        yield ("gauge-recovered", gw + ": thickness %r at chord position %r, radius law gives %r" % (math.dist(a, b), gx, 2 * law["r"](gx)))
    # 4. edges on the section at the ends of the camber curve
    cam = r["camber"]
    for nm, e, end in (("leading", r["le"], cam[0]), ("trailing", r["te"], cam[-1])):
        if e is None:
            continue
        if e["kind"] != "open" and dist_poly(e["p"], sec) > 10 * tol:
            yield ("edge-on-section", what + ": %s edge point %r is %r from the section" % (nm, e["p"], dist_poly(e["p"], sec)))
        if math.dist(e["p"], end) > 1e-6 * chord:
            yield ("edge-camber-end", what + ": %s edge point %r is not the %s end of the camber curve %r" % (nm, e["p"], "first" if nm == "leading" else "last", end))
    if inc and r["le"] is not None and r["te"] is not None:
        lx = (lambda p: ca * (p[0] - tx) + sa * (p[1] - ty))
        if lx(r["le"]["p"]) > lx(r["te"]["p"]):
            yield ("edge-swapped", what + ": leading edge %r lies beyond the trailing edge %r along the chord" % (r["le"]["p"], r["te"]["p"]))
    # 5. upper / lower partition the perimeter between the edge points, upper on the requested side
    up, lo = r["upper"], r["lower"]
    if up is not None and lo is not None:
        if abs(up["length"] + lo["length"] - r["perimeter"]) > 1e-4 * r["perimeter"]:
            yield ("faces-partition", what + ": upper %r + lower %r != perimeter %r" % (up["length"], lo["length"], r["perimeter"]))
        upv = [-sa, ca]
        mean = lambda cv: sum(p[0] * upv[0] + p[1] * upv[1] for p in cv["points"]) / len(cv["points"])
        if spec["camber"] > 0 or c["face"] != "detect":
            if mean(up) < mean(lo):
                yield ("faces-side", what + ": the surface reported as upper lies below the lower one along the upper direction")
