"""C16  Deviations equal signed distance and aggregates track their contents."""
import math
import common as C
from common import Some, Nat, Raw, opt, coq

LEVEL = "proof"
COQ_IMPORTS = ["Tie.C16"]
RULE = ("structured generators per clause: deviation-set histories (ties, signed zeros, empty starts, default start), "
        "tolerance-map lookups at/around every breakpoint incl. duplicates and one ulp either side, point-cloud op "
        "histories with accepted and rejected appends/merges/selections, 2D/3D deviations for query points on both "
        "sides, on the entity and inside the 1e-6 switch band, directed distances. A case is non-trivial unless its "
        "tag is 'trivial'; distinct = distinct (tag, input) pairs")
TRUSTED_BASE = [
    "Coq 8.16.1 kernel and vm_compute (model evaluation at binary64 inside coqc)",
    "hand-written model coq/Model/{Deviation,DevSet,Cloud,TolMap}.v tied to /repo by differential correspondence (Tie/C16.v checkers)",
    "Rust harness harness/src/c16.rs, generators and oracles in tools/props/c16.py",
    "closest-point query of Curve2/Mesh is an input to the deviation model (its optimality is property C02)",
]
ASSUMPTIONS = [
    "theorems are about the algorithm in exact real arithmetic; binary64 rounding is modelled, not verified",
    "slice::binary_search_by may return any index among equal keys; lookups are compared by breakpoint value",
]


def corpus():
    # D13 witness (fixed in /repo): below the first breakpoint there is no zone
    yield {"k": "c16.tolmap", "bp": [1.0, 2.0, 3.0], "xs": [0.5, 1.0, 1.5, 2.0, 2.5, 3.0, 3.5]}
    yield {"k": "c16.tolmap", "bp": [1.0, 2.0, 2.0, 3.0], "xs": [2.0, math.nextafter(2.0, 0), math.nextafter(2.0, 9)]}
    yield {"k": "c16.sds", "use_default": False, "init": [1.0, 3.0, 3.0, -2.0, -2.0], "pushes": [3.0, -2.0, 4.0, -5.0, 4.0]}
    yield {"k": "c16.sds", "use_default": True, "init": [], "pushes": [0.0, -0.0, 0.0]}


def rnd_val(rng):
    r = rng.random()
    if r < 0.5:
        return float(rng.choice([-2.0, -1.0, -0.5, -0.0, 0.0, 0.5, 1.0, 1.5, 2.0]))
    if r < 0.9:
        return rng.uniform(-10, 10)
    return rng.choice([1e-300, -1e-300, 1e300, -1e300, 5e-324])


# translator tie: metrology/line_profiles.rs point_curve2_deviation is regenerated on every run and proved (by conversion) to be the
# model's (normal, value) on the station's point and surface normal; the CurveStation2 is abstracted to those two accessors
SPECS = [dict(rust="src/metrology/line_profiles.rs", gen="LineProfiles", model="Model.Deviation", fns=[],
              extra_structs={"SurfacePoint2": [("point", "Point2"), ("normal", "UnitVec2")], "CurveStation2": [("pt", "Point2"), ("nrm", "UnitVec2")]},
              method_map={"CurveStation2.surface_point": ["(mk_SurfacePoint2 (CurveStation2_pt {0}) (CurveStation2_nrm {0}))", "SurfacePoint2"],
                          "CurveStation2.point": ["(CurveStation2_pt {0})", "Point2"]},
              call_map={"SurfaceDeviation2::new": "({0}, {1})", "SurfacePoint2::new": "(mk_SurfacePoint2 {0} {1})"},
              call_ty={"SurfacePoint2::new": "SurfacePoint2"}, type_map={"SurfaceDeviation2": "(SurfacePoint2 * num)%type"},
              stmts={"point_curve2_deviation":
                     "forall (N : EG.Num.Num.Num) (s : @CurveStation2 N) p, @{G}.point_curve2_deviation N s p = "
                     "(@mk_SurfacePoint2 N (CurveStation2_pt s) (@{M}.dev2_normal N (CurveStation2_pt s) (CurveStation2_nrm s) p), "
                     "@{M}.dev2_value N (CurveStation2_pt s) (CurveStation2_nrm s) p)"})]


def translate():
    return C.translator_tie(SPECS)


def gen_sds(rng):
    n0 = rng.choice([0, 0, 1, 2, 3, 5, 8])
    init = [rnd_val(rng) for _ in range(n0)]
    if n0 >= 2 and rng.random() < 0.05:
        init[rng.randrange(n0)] = float("nan")
    pushes = [rnd_val(rng) for _ in range(rng.choice([0, 1, 2, 4, 7, 12]))]
    use_default = n0 == 0 and rng.random() < 0.5
    return {"k": "c16.sds", "use_default": use_default, "init": init, "pushes": pushes}


def gen_tol(rng):
    n = rng.choice([1, 1, 2, 3, 4, 6])
    vals = sorted(rng.choice([float(rng.randint(-3, 6)), rng.uniform(-5, 5)]) for _ in range(n))
    xs = []
    for v in vals:
        xs += [v, math.nextafter(v, -math.inf), math.nextafter(v, math.inf)]
    xs += [vals[0] - 1.0, vals[-1] + 1.0, rng.uniform(vals[0] - 2, vals[-1] + 2), rng.uniform(vals[0], vals[-1])]
    if rng.random() < 0.1:
        xs.append(float("nan"))
    if rng.random() < 0.1:
        xs += [math.inf, -math.inf]
    return {"k": "c16.tolmap", "bp": vals, "xs": xs}


def gen_cloud(rng):
    def vec(n, present):
        return [rng.randint(0, 99) for _ in range(n)] if present else None
    n = rng.choice([0, 1, 2, 4])
    hn, hc = rng.random() < 0.5, rng.random() < 0.5
    init = {"p": vec(n, True), "n": vec(n, hn), "c": vec(n, hc)}
    if rng.random() < 0.1 and n > 0:
        init["n"] = vec(n + 1, True)   # rejected construction
    ops = []
    cur_n = n
    for _ in range(rng.choice([1, 2, 3, 5, 8])):
        r = rng.random()
        if r < 0.4:
            good = rng.random() < 0.7
            ops.append({"op": "append", "p": rng.randint(0, 99),
                        "n": (rng.randint(0, 99) if (hn if good else not hn) else None),
                        "c": (rng.randint(0, 99) if (hc if good or rng.random() < 0.5 else not hc) else None)})
        elif r < 0.75:
            m = rng.choice([0, 1, 3])
            good = rng.random() < 0.6
            on = hn if good else rng.random() < 0.5
            oc = hc if good else rng.random() < 0.5
            o = {"op": "merge", "p": vec(m, True), "n": vec(m, on), "c": vec(m, oc)}
            if rng.random() < 0.1:
                o["c"] = vec(m + 1, True)
            ops.append(o)
        else:
            k = rng.choice([0, 1, 2, 3])
            hi = max(cur_n + (2 if rng.random() < 0.15 else 0), 1)
            ops.append({"op": "select", "idx": [rng.randrange(hi) for _ in range(k)]})
    return {"k": "c16.cloud", "init": init, "ops": ops}


def rnd_curve(rng):
    n = rng.choice([2, 3, 4, 6, 10])
    pts = [[rng.uniform(-5, 5), rng.uniform(-5, 5)]]
    for _ in range(n - 1):
        pts.append([pts[-1][0] + rng.uniform(0.2, 2.0), pts[-1][1] + rng.uniform(-1.5, 1.5)])
    return pts


def gen_dev2(rng):
    pts = rnd_curve(rng)
    qs = []
    for _ in range(6):
        i = rng.randrange(len(pts) - 1)
        f = rng.random()
        base = [pts[i][0] + f * (pts[i + 1][0] - pts[i][0]), pts[i][1] + f * (pts[i + 1][1] - pts[i][1])]
        r = rng.random()
        if r < 0.2:
            qs.append(base)                                            # on the curve
        elif r < 0.4:
            e = rng.choice([1e-7, 5e-7, 2e-6, 1e-5]) * rng.choice([-1, 1])
            qs.append([base[0], base[1] + e])                          # around the 1e-6 switch
        elif r < 0.5:
            qs.append(list(pts[rng.randrange(len(pts))]))              # at a vertex
        else:
            qs.append([base[0] + rng.uniform(-2, 2), base[1] + rng.uniform(-2, 2)])
    qs.append([pts[0][0] - rng.uniform(0.5, 3), pts[0][1] + rng.uniform(-2, 2)])   # beyond the ends
    qs.append([pts[-1][0] + rng.uniform(0.5, 3), pts[-1][1] + rng.uniform(-2, 2)])
    # just off a vertex with a tangential component (the closest point is the vertex, the offset is not along the station
    # normal), at distances on both sides of the 1e-6 switch and up to 1e-2
    def near(v, ux, uy):
        d = rng.choice([3e-7, 8e-7, 2e-6, 1e-5, 1e-4, 5e-4, 9e-4, 3e-3, 1e-2])
        m = math.hypot(ux, uy) or 1.0
        return [v[0] + d * ux / m, v[1] + d * uy / m]
    qs.append(near(pts[0], -1.0, rng.uniform(-2, 2)))                  # beyond the first end (the curve runs towards +x)
    qs.append(near(pts[-1], 1.0, rng.uniform(-2, 2)))
    if len(pts) > 2:
        i = rng.randrange(1, len(pts) - 1)
        a = [pts[i][0] - pts[i - 1][0], pts[i][1] - pts[i - 1][1]]
        b = [pts[i + 1][0] - pts[i][0], pts[i + 1][1] - pts[i][1]]
        la, lb = math.hypot(*a), math.hypot(*b)
        turn = a[0] * b[1] - a[1] * b[0]
        # outward bisector of the corner (away from the side the curve turns to), tilted
        ox, oy = (a[1] / la + b[1] / lb, -a[0] / la - b[0] / lb) if turn > 0 else (-a[1] / la - b[1] / lb, a[0] / la + b[0] / lb)
        t = rng.uniform(-0.3, 0.3)
        qs.append(near(pts[i], ox - t * oy, oy + t * ox))
    return {"k": "c16.dev2", "curve": pts, "tol": 1e-6, "closed": False, "queries": qs}


def gen_dist(rng):
    if rng.random() < 0.5:
        a = [rng.uniform(-5, 5), rng.uniform(-5, 5)]
        b = [rng.uniform(-5, 5), rng.uniform(-5, 5)]
        d = None if rng.random() < 0.3 else [rng.uniform(-1, 1), rng.uniform(-1, 1)]
        return {"k": "c16.dist2", "a": a, "b": b, "dir": d}
    a = [rng.uniform(-5, 5) for _ in range(3)]
    b = [rng.uniform(-5, 5) for _ in range(3)]
    d = None if rng.random() < 0.3 else [rng.uniform(-1, 1) for _ in range(3)]
    return {"k": "c16.dist3", "a": a, "b": b, "dir": d}


BOX_F = [[0, 1, 2], [0, 2, 3], [4, 6, 5], [4, 7, 6], [0, 4, 5], [0, 5, 1], [1, 5, 6], [1, 6, 2], [2, 6, 7], [2, 7, 3], [3, 7, 4], [3, 4, 0]]


def gen_dev3(rng):
    if rng.random() < 0.5:
        w, h, d = rng.uniform(0.5, 3), rng.uniform(0.5, 3), rng.uniform(0.5, 3)
        verts = [[0, 0, 0], [w, 0, 0], [w, h, 0], [0, h, 0], [0, 0, d], [w, 0, d], [w, h, d], [0, h, d]]
        verts = [[float(x) for x in v] for v in verts]
        faces = BOX_F
    else:
        verts = [[rng.uniform(-2, 2), rng.uniform(-2, 2), rng.uniform(-0.3, 0.3)] for _ in range(6)]
        faces = [[0, 1, 2], [1, 3, 2], [2, 3, 4], [3, 5, 4]]
    qs = []
    for _ in range(6):
        f = faces[rng.randrange(len(faces))]
        u, v = rng.random(), rng.random()
        if u + v > 1:
            u, v = 1 - u, 1 - v
        a, b, c = (verts[i] for i in f)
        base = [a[i] + u * (b[i] - a[i]) + v * (c[i] - a[i]) for i in range(3)]
        r = rng.random()
        if r < 0.15:
            qs.append(base)
        elif r < 0.3:
            e = rng.choice([1e-7, 5e-7, 2e-6, 1e-5]) * rng.choice([-1, 1])
            qs.append([base[0], base[1], base[2] + e])
        else:
            qs.append([base[i] + rng.uniform(-1.5, 1.5) for i in range(3)])
    if faces is BOX_F:
        # beside an edge, exactly in the plane of one of the two faces that meet there: the closest point is on the edge and the
        # offset is perpendicular to the normal of that face
        for _ in range(2):
            t = rng.uniform(0.2, 1.5)
            qs.append(rng.choice([[w + t, rng.uniform(0, h), d], [rng.uniform(0, w), h + t, d], [w, h + t, rng.uniform(0, d)], [-t, rng.uniform(0, h), 0.0]]))
    return {"k": "c16.dev3", "verts": verts, "faces": faces, "queries": qs}


def gen_lsd(rng):
    c0 = gen_dev2(rng)
    qs = c0["queries"] + [[rng.uniform(-3, 8), rng.uniform(-3, 3)] for _ in range(rng.choice([0, 5, 20]))]
    rng.shuffle(qs)
    L = sum(math.dist(a, b) for a, b in zip(c0["curve"], c0["curve"][1:]))
    r = rng.random()
    iv = None if r < 0.3 else sorted([rng.uniform(0, L), rng.uniform(0, L)]) if r < 0.8 else [0.0, L * 0.5]
    if rng.random() < 0.1:
        qs = []
    return {"k": "c16.lsd", "curve": c0["curve"], "tol": c0["tol"], "closed": c0["closed"], "queries": qs, "interval": iv}


def gen_dev3_plate(rng):
    """a flat open plate and points level with it beyond its rim (and beyond its corners): the closest point is on the border
    and the offset lies in the plate's plane"""
    w, h = rng.uniform(0.5, 3), rng.uniform(0.5, 3)
    verts = [[0.0, 0.0, 0.0], [w, 0.0, 0.0], [w, h, 0.0], [0.0, h, 0.0]]
    faces = [[0, 1, 2], [0, 2, 3]]
    qs = []
    for _ in range(6):
        t = rng.uniform(0.2, 2.0)
        qs.append(rng.choice([[w + t, rng.uniform(0, h), 0.0], [-t, rng.uniform(0, h), 0.0], [rng.uniform(0, w), h + t, 0.0], [rng.uniform(0, w), -t, 0.0],
                              [w + t, h + rng.uniform(0.1, 1), 0.0], [w + t, rng.uniform(0, h), rng.choice([1e-9, -1e-8, 3e-7])]]))
    return {"k": "c16.dev3", "verts": verts, "faces": faces, "queries": qs, "plate": True}


def generate(rng, tier):
    n = 60 if tier == "quick" else 600
    out = []
    for _ in range(n):
        out += [gen_sds(rng), gen_tol(rng), gen_cloud(rng), gen_dist(rng)]
    for _ in range(n // 2):
        out += [gen_dev2(rng), gen_dev3(rng)]
    for _ in range(n // 6):
        out += [gen_dev3_plate(rng), gen_lsd(rng), gen_lsd(rng)]
    return out


# ------------------------------------------------------------------ tags

def tag(c, r):
    k = c["k"]
    if r.get("panic"):
        return k + ":panic"
    if k == "c16.sds":
        vals = c["init"] + c["pushes"]
        if not vals:
            return "trivial"
        ties = len(set(vals)) < len(vals)
        return "%s:%s:n%d%s" % (k, "default" if c["use_default"] else "new", min(len(vals), 9) // 3, ":ties" if ties else "")
    if k == "c16.tolmap":
        return "%s:n%d%s" % (k, len(c["bp"]), ":dup" if len(set(c["bp"])) < len(c["bp"]) else "")
    if k == "c16.cloud":
        if r.get("init_err"):
            return k + ":init-rejected"
        t = sorted(set("%s%d" % (o["op"][0], e["tag"]) for o, e in zip(c["ops"], r["out"][1:])))
        return k + ":" + "".join(t)
    if k == "c16.dev2" or k == "c16.dev3":
        return k + (":plate" if c.get("plate") else "")
    return k + (":default-dir" if c.get("dir") is None else "")


# ------------------------------------------------------------------ model comparison (Coq terms)

def V(p):
    return tuple(float(x) for x in p)


def coq_check(c, r):
    k = c["k"]
    if k == "c16.sds":
        if r.get("panic"):
            rust = None
        else:
            rust = Some([(o["len"], opt(o["max"]), opt(o["min"]), o["zone"]) for o in r["obs"]])
        return "check_sds %s %s %s %s" % (coq(c["use_default"]), coq(c["init"]), coq(c["pushes"]), coq(rust))
    if k == "c16.tolmap":
        if "err" in r:
            return None
        qs = []
        for x, o in zip(c["xs"], r["out"]):
            if o.get("panic"):
                qs.append((x, None))
            else:
                qs.append((x, Some((opt(o["zone"]), opt(o["idx"])))))
        return "check_tol %s %s 1" % (coq(c["bp"]), coq(qs))
    if k == "c16.cloud":
        def ol(v):
            return None if v is None else Some(list(v))

        def op(o):
            if o["op"] == "append":
                return Raw("(OpAppend %s %s %s)" % (coq(o["p"]), coq(opt(o["n"])), coq(opt(o["c"]))))
            if o["op"] == "merge":
                return Raw("(OpMerge %s %s %s)" % (coq(list(o["p"])), coq(ol(o["n"])), coq(ol(o["c"]))))
            return Raw("(OpSelect %s)" % coq([Nat(i) for i in o["idx"]]))
        if r.get("init_err"):
            rust = None
        else:
            rust = Some([(e["tag"], (list(e["s"]["pts"]), ol(e["s"]["nrm"]), ol(e["s"]["col"]))) for e in r["out"]])
        i = c["init"]
        return "check_cloud %s %s %s %s %s" % (coq(list(i["p"])), coq(ol(i["n"])), coq(ol(i["c"])),
                                               coq([op(o) for o in c["ops"]]), coq(rust))
    if k == "c16.dev2":
        if "err" in r:
            return None
        ts = ["check_dev2 %s %s %s %s %s %s" % (coq(V(o["sp"])), coq(V(o["sn"])), coq(V(q)), coq(V(o["n"])),
                                                coq(o["dev"]), coq(V(o["actual"])))
              for q, o in zip(c["queries"], r["out"])]
        return "fold_left (fun acc x => if Z.eqb acc 0 then x else if Z.eqb x 0 then acc else if Z.eqb acc 100 then x else acc) [%s] 0%%Z" % "; ".join(ts)
    if k == "c16.dev3":
        ts = []
        for q, o in zip(c["queries"], r["out"]):
            ts.append("check_dev3 false %s %s %s %s %s" % (coq(V(o["cp"])), coq(V(o["cn"])), coq(V(q)), coq(V(o["d0"])), coq(o["v0"])))
            ts.append("check_dev3 true %s %s %s %s %s" % (coq(V(o["cp"])), coq(V(o["cn"])), coq(V(q)), coq(V(o["d1"])), coq(o["v1"])))
        return "fold_left (fun acc x => if Z.eqb acc 0 then x else if Z.eqb x 0 then acc else if Z.eqb acc 100 then x else acc) [%s] 0%%Z" % "; ".join(ts)
    if k in ("c16.dist2", "c16.dist3"):
        fn = "check_dist2" if k == "c16.dist2" else "check_dist3"
        d = None if c["dir"] is None else Some(V(c["dir"]))
        return "%s %s %s %s %s %s %s" % (fn, coq(V(c["a"])), coq(V(c["b"])), coq(d), coq(V(r["dir"])), coq(r["value"]), coq(r["rvalue"]))
    return None


# ------------------------------------------------------------------ search: property oracles on the implementation's outputs

def dot(a, b):
    return sum(x * y for x, y in zip(a, b))


def sub(a, b):
    return [x - y for x, y in zip(a, b)]


def norm(a):
    return math.sqrt(dot(a, a))


def oracle(c, r):
    k = c["k"]
    if k == "c16.sds":
        vals = list(c["init"]) + list(c["pushes"])
        if any(math.isnan(v) for v in vals):
            return
        if r.get("panic"):
            yield ("sds-panic", "SurfaceDeviationSet panicked on NaN-free history %r" % (vals,))
            return
        n0 = len(c["init"])
        for i, o in enumerate(r["obs"]):
            held = vals[:n0 + i]
            if o["len"] != len(held):
                yield ("sds-len", "after %d pushes the set holds %d values, expected %d" % (i, o["len"], len(held)))
            if not held:
                if o["max"] is not None or o["min"] is not None or o["zone"] != 0.0:
                    yield ("sds-empty", "empty set reports extremes %r" % (o,))
                continue
            if o["max"] is None or o["max"] != max(held):
                yield ("sds-max", "after %d pushes max()=%r but the true maximum of %r is %r" % (i, o["max"], held, max(held)))
            if o["min"] is None or o["min"] != min(held):
                yield ("sds-min", "after %d pushes min()=%r but the true minimum of %r is %r" % (i, o["min"], held, min(held)))
            z = 2 * max(abs(v) for v in held)
            if o["zone"] != z:
                yield ("sds-zone", "symmetrical_zone_size()=%r, expected %r for %r" % (o["zone"], z, held))
    elif k == "c16.tolmap":
        bp = c["bp"]
        if "err" in r:
            yield ("tolmap-ctor", "sorted finite breakpoints %r rejected" % (bp,))
            return
        z = r.get("zone")
        if z is not None:
            a, b = bp[0], bp[-1]
            if not z["ok"] or (z["try_rev"] and b > a):
                yield ("tolerance-zone", "Tolerance::try_new(%r, %r) ok=%r, with the bounds swapped ok=%r" % (a, b, z["ok"], z["try_rev"]))
            elif z["conforms"] != [(a <= x <= b) for x in c["xs"]] or z["size"] != b - a or z["center"] != (b + a) / 2:
                yield ("tolerance-zone", "zone [%r, %r]: conforms %r on %r, size %r, centre %r" % (a, b, z["conforms"], c["xs"], z["size"], z["center"]))
            elif z["sym"] != [a - abs(b - a), a + abs(b - a)] or z["symn"] != z["sym"]:
                yield ("tolerance-zone", "symmetrical(%r, +-%r) = %r / %r" % (a, b - a, z["sym"], z["symn"]))
        for x, o in zip(c["xs"], r["out"]):
            if math.isnan(x):
                continue
            if o.get("panic"):
                yield ("tolmap-panic", "get(%r) panicked on breakpoints %r" % (x, bp))
                continue
            z = o["zone"]
            if x < bp[0]:
                if z is not None:
                    yield ("tolmap-below-start", "get(%r) below the first breakpoint of %r returned zone %r" % (x, bp, z))
            else:
                want = max(v for v in bp if v <= x)
                if z is None or bp[z] != want:
                    yield ("tolmap-zone", "get(%r) on %r returned zone %r; the greatest breakpoint not above x is %r" % (x, bp, z, want))
    elif k == "c16.cloud":
        if r.get("init_err"):
            return
        prev = None
        for e in r["out"]:
            s = e["s"]
            for key in ("nrm", "col"):
                if s[key] is not None and len(s[key]) != len(s["pts"]):
                    yield ("cloud-length", "%s has %d entries for %d points" % (key, len(s[key]), len(s["pts"])))
            if prev is not None and e["tag"] != 0 and s != prev:
                yield ("cloud-reject-changed", "a rejected operation changed the cloud: %r -> %r" % (prev, s))
            prev = s
    elif k == "c16.dev2":
        if "err" in r:
            return
        for q, o in zip(c["queries"], r["out"]):
            d = o["dist"]
            if abs(abs(o["dev"]) - d) > 1e-6 + 1e-9 * max(1, d):
                yield ("dev2-magnitude", "|deviation| %r differs from the closest distance %r at %r" % (o["dev"], d, q))
            if d > 2e-6:
                side = dot(sub(q, o["sp"]), o["sn"])
                if abs(side) > 1e-7 and (side > 0) != (o["dev"] > 0):
                    yield ("dev2-sign", "deviation %r has the wrong sign for a point on the %s side" % (o["dev"], "normal" if side > 0 else "far"))
                if norm(sub(o["actual"], q)) > 1e-8 * max(1, norm(q)):
                    yield ("dev2-reconstruct", "reference + direction*value = %r, measured point %r" % (o["actual"], q))
    elif k == "c16.lsd":
        if r.get("panic"):
            yield ("lsd-panic", "line_surface_deviations panicked on %d points (interval %r)" % (len(c["queries"]), c["interval"]))
            return
        if r.get("err"):
            return
        iv = c["interval"]
        keep = [e for e in r["each"] if iv is None or iv[0] <= e["l"] <= iv[1]]
        got = r["set"]
        if len(got) != len(keep) or any(g["dev"] != e["dev"] or g["p"] != e["p"] or g["n"] != e["n"] for g, e in zip(got, keep)):
            yield ("lsd-contents", "line_surface_deviations kept %d deviations %r; the points whose closest station lies in %r give %d: %r" % (
                len(got), [g["dev"] for g in got][:8], iv, len(keep), [e["dev"] for e in keep][:8]))
            return
        # every deviation held in the set gives back its measured point: reference + direction * value
        for g, e in zip(got, keep):
            q = e["q"]
            rec = [g["p"][i] + g["n"][i] * g["dev"] for i in range(2)]
            if abs(g["dev"]) > 2e-6 and math.dist(rec, q) > 1e-9 * max(1.0, abs(q[0]), abs(q[1])):
                yield ("lsd-reconstruct", "the set holds reference %r, direction %r, value %r for the measured point %r: they give back %r" % (g["p"], g["n"], g["dev"], q, rec))
                return
        vals = [g["dev"] for g in got]
        if vals:
            if r["max"] != max(vals) or r["min"] != min(vals):
                yield ("lsd-extremes", "the set holds %r but reports max %r min %r" % (vals[:10], r["max"], r["min"]))
            elif r["zone"] is None or abs(r["zone"] - 2 * max(abs(max(vals)), abs(min(vals)))) > 1e-12 * max(1.0, abs(r["zone"])):
                yield ("lsd-zone", "symmetric zone %r of a set spanning [%r, %r]" % (r["zone"], min(vals), max(vals)))
        elif r["max"] is not None or r["min"] is not None or r["zone"] not in (0.0, None):
            yield ("lsd-extremes", "an empty set reports max %r min %r zone %r" % (r["max"], r["min"], r["zone"]))
    elif k == "c16.dev3":
        for q, o in zip(c["queries"], r["out"]):
            d = o["cdist"]
            v = sub(q, o["cp"])
            if abs(o["v1"] - dot(o["cn"], v)) > 1e-9 * max(1, d):
                yield ("dev3-plane", "plane-mode value %r is not the normal component %r" % (o["v1"], dot(o["cn"], v)))
            if abs(abs(o["v0"]) - d) > 1e-6 + 1e-9 * max(1, d):
                yield ("dev3-magnitude", "|point-mode value| %r differs from the closest distance %r" % (o["v0"], d))
            if d > 2e-6:
                side = dot(o["cn"], v)
                if abs(side) > 1e-7 and (side > 0) != (o["v0"] > 0):
                    yield ("dev3-sign", "point-mode value %r has the wrong sign (normal component %r)" % (o["v0"], side))
                rec = [o["a0"][i] + o["d0"][i] * o["v0"] for i in range(3)]
                if norm(sub(rec, q)) > 1e-8 * max(1, norm(q)):
                    yield ("dev3-reconstruct", "reference + direction*value = %r, measured point %r" % (rec, q))
    elif k in ("c16.dist2", "c16.dist3"):
        v = dot(r["dir"], sub(c["b"], c["a"]))
        if not C.close(r["value"], v):
            yield ("dist-value", "value %r is not the projection %r of b-a on the direction" % (r["value"], v))
        if not C.close(r["rvalue"], r["value"]):
            yield ("dist-reversed", "reversed value %r differs from %r" % (r["rvalue"], r["value"]))
        mid = [(x + y) / 2 for x, y in zip(c["a"], c["b"])]
        if norm(sub(mid, r["center"])) > 1e-9 * max(1, norm(mid)):
            yield ("dist-center", "center %r is not the mid point %r" % (r["center"], mid))
