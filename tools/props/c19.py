"""C19  Basis, frame and plane constructions are orthonormal and right-handed."""
import math
import common as C
from common import Some, Nat, Raw, opt, coq

LEVEL = "proof"
COQ_IMPORTS = ["Tie.C19"]
RULE = ("vector pairs: skew, non-unit (1e-13..1e12), nearly parallel (angle 1e-3..1e-12, also with a very long second vector), parallel, zero, with and without origin, all six "
        "constructors; point sets of 4..40 points: generic, planar, collinear, coincident, off-origin (to 1e3), with and without "
        "positive weights (uniform, scaled, random); point triples and point+normal planes with query points. distinct = distinct (tag, input)")
TRUSTED_BASE = [
    "Coq 8.16.1 kernel and vm_compute",
    "hand-written model coq/Model/Frames.v tied by differential correspondence Tie/C19.v",
    "nalgebra's SVD and UnitQuaternion::from_matrix are oracles: their outputs are certified per run in Coq arithmetic "
    "(orthonormal basis, non-increasing singular values, (sum v v^T) b_k = sv_k^2 b_k) and compared with the modelled column frame to 1e-9",
    "harness/src/c19.rs, generators and oracles in tools/props/c19.py",
]
ASSUMPTIONS = [
    "theorems over exact reals; the 1e-10 try_normalize guard is part of the model (Err iff a norm is <= 1e-10)",
    "singular value decomposition itself is not proved, only certified per run",
]

KINDS = ["xy", "xz", "yz", "yx", "zx", "zy"]


def rv(rng, s=1.0):
    return [rng.uniform(-1, 1) * s for _ in range(3)]


def norm(v):
    return math.sqrt(sum(x * x for x in v))


def cross(a, b):
    return [a[1] * b[2] - a[2] * b[1], a[2] * b[0] - a[0] * b[2], a[0] * b[1] - a[1] * b[0]]


def dot(a, b):
    return sum(x * y for x, y in zip(a, b))


def unit(v):
    n = norm(v)
    return [x / n for x in v]


def gen_frame(rng):
    s = rng.choice([1e-6, 1e-3, 1.0, 1.0, 50.0, 1e6])
    a = rv(rng, s)
    cls = rng.choice(["skew", "skew", "skew", "near", "parallel", "zero_a", "zero_b", "tiny", "short_b", "long_near", "axes", "axes", "halfturn"])
    if cls == "axes":
        # frames made of signed coordinate axes: quarter and half turns of the world frame, exactly
        ax = [[1.0, 0.0, 0.0], [0.0, 1.0, 0.0], [0.0, 0.0, 1.0]]
        i, j = rng.sample(range(3), 2)
        a = [x * rng.choice([-1, 1]) * s for x in ax[i]]
        b = [x * rng.choice([-1, 1]) * rng.choice([1.0, 3.0]) + 0.25 * y for x, y in zip(ax[j], a)]
    elif cls == "halfturn":
        # within 1e-6 .. 1e-10 rad of a half turn of the world frame about a random axis (a coordinate system flipped over)
        k = unit(rv(rng))
        eps = rng.choice([1e-6, 1e-8, 1e-9, 1e-10, 0.0])
        th = math.pi - eps
        def rot(v):
            kv = sum(x * y for x, y in zip(k, v))
            cr = [k[1] * v[2] - k[2] * v[1], k[2] * v[0] - k[0] * v[2], k[0] * v[1] - k[1] * v[0]]
            return [v[i] * math.cos(th) + cr[i] * math.sin(th) + k[i] * kv * (1 - math.cos(th)) for i in range(3)]
        ax = [[1.0, 0.0, 0.0], [0.0, 1.0, 0.0], [0.0, 0.0, 1.0]]
        a = [x * s for x in rot(ax[0])]
        b = [x + 0.3 * y for x, y in zip(rot(ax[1]), rot(ax[0]))]
    elif cls == "skew":
        b = rv(rng, rng.choice([1e-3, 1.0, 1e3]))
    elif cls == "near":
        eps = rng.choice([1e-3, 1e-6, 1e-9, 1e-12])
        p = rv(rng)
        b = [x * rng.uniform(0.5, 2) + eps * norm(a) * y for x, y in zip(a, p)]
    elif cls == "parallel":
        f = rng.choice([1.0, -2.0, 0.5])
        b = [x * f for x in a]
    elif cls == "short_b":      # a well-conditioned but very short second argument: lengths must not matter
        b = rv(rng, rng.choice([1e-9, 1e-11, 1e-13]))
    elif cls == "long_near":    # a very long second argument within 1e-10 rad of the first: must still be rejected
        p = rv(rng)
        big = rng.choice([1e8, 1e12])
        b = [(x / max(norm(a), 1e-300) + rng.choice([1e-11, 1e-12]) * y) * big for x, y in zip(a, p)]
    elif cls == "zero_a":
        a, b = [0.0, 0.0, 0.0], rv(rng)
    elif cls == "zero_b":
        b = [0.0, 0.0, 0.0]
    else:
        a = rv(rng, rng.choice([1e-10, 3e-11, 1e-9]))
        b = rv(rng)
    return {"k": "c19.frame", "kind": rng.choice(KINDS), "a": a, "b": b, "o": None if rng.random() < 0.3 else rv(rng, 100.0), "cls": cls}


def gen_xyo(rng):
    a = rv(rng)
    b = rv(rng)
    if norm(cross(unit(a), unit(b))) < 1e-3:
        b = [b[0] + 1.0, b[1] - 0.5, b[2]]
    return {"k": "c19.xyo", "a": a, "b": b, "o": rv(rng, 10.0)}


def gen_pts(rng, dim):
    n = rng.choice([dim + 1, 5, 8, 20, 40])
    off = [rng.choice([0.0, 1.0, 100.0, 1000.0]) * rng.uniform(-1, 1) for _ in range(dim)]
    cls = rng.choice(["generic", "generic", "planar", "collinear", "coincident", "aniso"])
    axes = [unit(rv(rng))[:dim] for _ in range(dim)]
    sc = {"generic": [1.0] * dim, "planar": [1.0] * (dim - 1) + [0.0], "collinear": [1.0] + [0.0] * (dim - 1),
          "coincident": [0.0] * dim, "aniso": [10.0 ** (-2 * i) for i in range(dim)]}[cls]
    pts = []
    for _ in range(n):
        p = list(off)
        for ax, s in zip(axes, sc):
            t = rng.uniform(-1, 1) * s
            p = [x + t * y for x, y in zip(p, ax)]
        pts.append(p)
    r = rng.random()
    if r < 0.45:
        w = None
    elif r < 0.6:
        w = [rng.choice([2.0, 0.5, 7.0])] * n
    else:
        w = [rng.uniform(0.1, 3.0) for _ in range(n)]
    if w is not None:
        # the decomposition does not depend on the unit of the weights: very small and very large weights included
        m = rng.choice([1e-18, 1e-9, 1.0, 1.0, 1.0, 1e9, 1e18])
        w = [x * m for x in w]
    return pts, w, cls


# translator tie: geom3/plane3.rs is regenerated on every run and each function is proved (by conversion) to be the model's
# function on the same plane; the generated record Plane3 and the model's record `plane` differ only in their names
_PL = "(@mkPlane _ (Plane3_normal s) (Plane3_d s))"
SPECS = [dict(rust="src/geom3/plane3.rs", gen="Plane3", model="Model.Frames", fns=[], aux=["Plane3_new"], fields=["Plane3"], stmts={
    "Plane3_signed_distance_to_point": "forall (N : EG.Num.Num.Num) (s : @Plane3 N) q, @{G}.Plane3_signed_distance_to_point N s q = @{M}.plane_signed N %s q" % _PL,
    "Plane3_distance_to_point": "forall (N : EG.Num.Num.Num) (s : @Plane3 N) q, @{G}.Plane3_distance_to_point N s q = @{M}.plane_dist N %s q" % _PL,
    "Plane3_project_point": "forall (N : EG.Num.Num.Num) (s : @Plane3 N) q, @{G}.Plane3_project_point N s q = @{M}.plane_project N %s q" % _PL,
    "Plane3_inverted_normal": "forall (N : EG.Num.Num.Num) (s : @Plane3 N), (let r := @{G}.Plane3_inverted_normal N s in @mkPlane N (Plane3_normal r) (Plane3_d r)) = @{M}.plane_inverted N %s" % _PL,
})]

# geom3/iso3.rs: the six try_from_basis_* constructors (thresholds, cross-product order, which axis is recomputed); the final
# from_bases(e0, e1, e2, origin) - nalgebra's matrix-to-quaternion conversion - is mapped to the triple of axes, which is what the
# model's theorems speak about and what the correspondence compares
_FR = "(option ((num * num * num) * (num * num * num) * (num * num * num))%type)"
SPECS.append(dict(rust="src/geom3/iso3.rs", gen="Iso3", model="Model.Frames", types="Model.Types Model.Frames", fns=[],
                  trait_impls=["IsoExtensions3"], call_map={"from_bases": "(Some ({0}, {1}, {2}))"}, type_map={"Result<Iso3>": _FR},
                  stmts={"Iso3_try_from_basis_%s" % k:
                         "forall (N : EG.Num.Num.Num) a b o, @{G}.Iso3_try_from_basis_%s N a b o = @{M}.basis_%s N a b" % (k, k)
                         for k in ("xy", "xz", "yz", "yx", "zx", "zy")}))


def translate():
    return C.translator_tie(SPECS)


def gen_svd(rng, dim):
    pts, w, cls = gen_pts(rng, dim)
    q = [rng.uniform(-2, 2) + p for p in pts[0]]
    return {"k": "c19.svd%d" % dim, "pts": pts, "w": w, "q": q, "tol": rng.choice([1e-9, 1e-6, 1e-3]), "cls": cls}


def gen_plane(rng):
    if rng.random() < 0.5:
        p1 = rv(rng, 10)
        sc = rng.choice([1e-5, 1e-3, 1e-2, 1, 100])      # the triangle's size is the user's unit: small well-shaped triangles included
        return {"k": "c19.plane3", "p1": p1, "p2": [x + y for x, y in zip(p1, rv(rng, sc))],
                "p3": [x + y for x, y in zip(p1, rv(rng, rng.choice([sc, sc, 1e-2, 1, 100])))], "q": rv(rng, 20)}
    return {"k": "c19.planepn", "n": rv(rng, rng.choice([1e-3, 1, 1e3])), "p": rv(rng, 10), "q": rv(rng, 20), "sp": rng.random() < 0.5}


def corpus():
    # D15 witness: four nearly collinear points, uniform weights 2
    pts = [[0.0, 0.0, 0.0], [1.0, 0.1, 0.0], [2.0, -0.1, 0.0], [3.0, 0.05, 0.02]]
    yield {"k": "c19.svd3", "pts": pts, "w": [2.0] * 4, "q": [0.5, 0.5, 0.5], "tol": 1e-6, "cls": "corpus"}
    yield {"k": "c19.svd3", "pts": pts, "w": None, "q": [0.5, 0.5, 0.5], "tol": 1e-6, "cls": "corpus"}
    yield {"k": "c19.frame", "kind": "xy", "a": [1.0, 0.0, 0.0], "b": [2.0, 0.0, 0.0], "o": None, "cls": "parallel"}
    # every frame made of signed coordinate axes, through every constructor (the half-turns about y were returned as the identity:
    # fixed b21f4aa)
    ax = [[1.0, 0.0, 0.0], [-1.0, 0.0, 0.0], [0.0, 1.0, 0.0], [0.0, -1.0, 0.0], [0.0, 0.0, 1.0], [0.0, 0.0, -1.0]]
    for kind in ("xy", "xz", "yz", "yx", "zx", "zy"):
        for a in ax:
            for b in ax:
                if abs(sum(x * y for x, y in zip(a, b))) < 0.5:
                    yield {"k": "c19.frame", "kind": kind, "a": list(a), "b": list(b), "o": None, "cls": "axes"}


def generate(rng, tier):
    n = 70 if tier == "quick" else 1000
    out = []
    for _ in range(n):
        out += [gen_frame(rng), gen_frame(rng), gen_svd(rng, 3), gen_svd(rng, 2), gen_plane(rng)]
    for _ in range(n // 3):
        out.append(gen_xyo(rng))
    return out


def tag(c, r):
    k = c["k"]
    if k == "c19.frame":
        return "%s:%s:%s:%s" % (k, c["kind"], c["cls"], "err" if r.get("err") else "ok")
    if k in ("c19.svd3", "c19.svd2"):
        return "%s:%s:%s" % (k, c["cls"], "w" if c["w"] else "u")
    return k


def T(p):
    return tuple(float(x) for x in p)


def coq_check(c, r):
    k = c["k"]
    if k == "c19.frame":
        kind = KINDS.index(c["kind"])
        z = (0.0, 0.0, 0.0)
        if r.get("err"):
            return "check_frame %s %s %s %s 1 %s %s %s %s" % (coq(kind), coq(T(c["a"])), coq(T(c["b"])), coq(opt(None if c["o"] is None else T(c["o"]))), coq(z), coq(z), coq(z), coq(z))
        return "check_frame %s %s %s %s 0 %s %s %s %s" % (coq(kind), coq(T(c["a"])), coq(T(c["b"])), coq(opt(None if c["o"] is None else T(c["o"]))),
                                                         coq(T(r["x"])), coq(T(r["y"])), coq(T(r["z"])), coq(T(r["o"])))
    if k == "c19.xyo":
        i = r["inv"]
        return "check_xyo %s %s %s %s %s %s %s" % (coq(T(r["x0"])), coq(T(r["y"])), coq(T(c["o"])), coq(T(i["x"])), coq(T(i["y"])), coq(T(i["z"])), coq(T(i["o"])))
    if k == "c19.svd3":
        i = r["iso_inv"]
        if any(not math.isfinite(x) for b in r["basis"] for x in b):
            return None
        return "check_svd3 %s %s %s %s %s %s %s %s %s %s %s %s %s %s %s %s %s" % (
            coq([T(p) for p in c["pts"]]), coq(opt(None if c["w"] is None else list(c["w"]))), coq(T(c["q"])), coq(c["tol"]),
            coq(T(r["center"])), coq([T(b) for b in r["basis"]]), coq(list(r["sv"])), coq(int(r["n"])), coq(list(r["var"])), coq(list(r["std"])),
            coq(int(r["rank"])), coq(T(r["to"])), coq(T(r["from"])), coq(T(i["x"])), coq(T(i["y"])), coq(T(i["z"])), coq(T(i["o"])))
    if k == "c19.svd2":
        if any(not math.isfinite(x) for b in r["basis"] for x in b):
            return None
        return "check_svd2 %s %s %s %s %s %s %s %s %s %s %s %s" % (
            coq([T(p) for p in c["pts"]]), coq(opt(None if c["w"] is None else list(c["w"]))), coq(T(c["q"])), coq(c["tol"]),
            coq(T(r["center"])), coq([T(b) for b in r["basis"]]), coq(list(r["sv"])), coq(int(r["n"])), coq(list(r["var"])),
            coq(int(r["rank"])), coq(T(r["to"])), coq(T(r["from"])))
    if k in ("c19.plane3", "c19.planepn"):
        tail = "%s %s %s %s %s %s %s %s" % (coq(T(r["n"])), coq(r["d"]), coq(r["signed"]), coq(r["dist"]), coq(T(r["proj"])), coq(T(r["inv_n"])), coq(r["inv_d"]), coq(r["inv_signed"]))
        if any(not math.isfinite(x) for x in r["n"]):
            return None
        if k == "c19.plane3":
            return "check_plane3 %s %s %s %s %s" % (coq(T(c["p1"])), coq(T(c["p2"])), coq(T(c["p3"])), coq(T(c["q"])), tail)
        return "check_planepn %s %s %s %s" % (coq(T(c["n"])), coq(T(c["p"])), coq(T(c["q"])), tail)
    return None


# ------------------------------------------------------------------ oracles

def frame_oracle(x, y, z, what):
    vs = [x, y, z]
    for i in range(3):
        if abs(norm(vs[i]) - 1) > 1e-9:
            yield ("frame-orthonormal", "%s: axis %d has length %r" % (what, i, norm(vs[i])))
            return
        for j in range(i + 1, 3):
            if abs(dot(vs[i], vs[j])) > 1e-9:
                yield ("frame-orthonormal", "%s: axes %d and %d have dot product %r" % (what, i, j, dot(vs[i], vs[j])))
                return
    det = dot(cross(x, y), z)
    if abs(det - 1) > 1e-9:
        yield ("frame-right-handed", "%s: determinant %r" % (what, det))


def oracle(c, r):
    k = c["k"]
    if k == "c19.frame":
        a, b = c["a"], c["b"]
        what = "try_from_basis_%s(%r, %r)" % (c["kind"], a, b)
        na, nb = norm(a), norm(b)
        sinab = norm(cross(unit(a), unit(b))) if na > 0 and nb > 0 else 0.0
        if r.get("err"):
            if na > 1e-9 and nb > 0 and sinab > 1e-9:
                yield ("frame-rejected", what + " failed on independent vectors")
            return
        if na < 1e-11 or nb == 0 or sinab < 1e-11:
            yield ("frame-garbage", what + " returned a frame for zero or parallel arguments")
            return
        x, y, z = r["x"], r["y"], r["z"]
        yield from frame_oracle(x, y, z, what)
        axes = {"x": x, "y": y, "z": z}
        prim, sec = axes[c["kind"][0]], axes[c["kind"][1]]
        # the second argument's perpendicular part is known to eps/sin(angle) only; the matrix handed to the quaternion
        # conversion is orthonormal to that accuracy and the conversion spreads the defect over the axes
        if max(abs(p - q) for p, q in zip(prim, unit(a))) > 1e-9 + 1e-15 / max(sinab, 1e-300):
            yield ("frame-primary", what + ": primary axis %r is not the normalised first argument %r" % (prim, unit(a)))
        if sinab > 1e-6 and dot(sec, b) <= 0:
            yield ("frame-secondary", what + ": secondary axis %r is not in the half-plane of %r" % (sec, b))
        o = c["o"] or [0.0, 0.0, 0.0]
        if list(r["o"]) != [float(v) for v in o]:
            yield ("frame-origin", what + ": origin maps to %r, expected %r" % (r["o"], o))
    elif k == "c19.xyo":
        i = r["inv"]
        yield from frame_oracle(i["x"], i["y"], i["z"], "iso3_from_xyo")
        if max(abs(p - q) for p, q in zip(i["x"], r["x0"])) > 1e-9:
            yield ("frame-primary", "iso3_from_xyo: x axis %r is not x0 %r" % (i["x"], r["x0"]))
        if dot(i["y"], r["y"]) <= 0:
            yield ("frame-secondary", "iso3_from_xyo: y axis not in the half-plane of y")
    elif k in ("c19.svd3", "c19.svd2"):
        dim = 3 if k.endswith("3") else 2
        pts, w = c["pts"], c["w"]
        n = len(pts)
        ww = w or [1.0] * n
        tw = sum(ww)
        mean = [sum(wi * p[j] for wi, p in zip(ww, pts)) / tw for j in range(dim)]
        scale = max(1.0, max(abs(x) for p in pts for x in p))
        what = "SvdBasis%d::from_points(%d points, %s)" % (dim, n, "weights %r" % (w[:3],) if w else "no weights")
        if max(abs(a - b) for a, b in zip(mean, r["center"])) > 1e-9 * scale:
            yield ("svd-centre", what + ": centre %r, weighted mean %r" % (r["center"], mean))
            return
        basis, sv = r["basis"], r["sv"]
        if any(not math.isfinite(x) for b in basis for x in b) or any(not math.isfinite(s) for s in sv):
            yield ("svd-nonfinite", what + ": basis %r sv %r" % (basis, sv))
            return
        for i in range(dim):
            for j in range(i, dim):
                d = sum(x * y for x, y in zip(basis[i], basis[j]))
                if abs(d - (1.0 if i == j else 0.0)) > 1e-9:
                    yield ("svd-orthonormal", what + ": basis vectors %d,%d have dot %r" % (i, j, d))
                    return
        if any(sv[i] < sv[i + 1] - 1e-12 * max(sv[0], 1e-300) for i in range(dim - 1)):
            yield ("svd-order", what + ": singular values %r not non-increasing" % (sv,))
        # sv_k^2 = sum of squared projections of the (weighted) centred vectors on axis k, i.e. n * variance along it
        mw = sum(ww) / n          # weights are relative: uniform weights mean no weights, whatever their unit
        vecs = [[(p[j] - r["center"][j]) * (wi / mw) for j in range(dim)] for p, wi in zip(pts, ww)]
        proj = [sum(sum(v[j] * basis[i][j] for j in range(dim)) ** 2 for v in vecs) for i in range(dim)]
        top = max(max(proj), 1e-300)
        for i in range(dim):
            if abs(proj[i] - sv[i] ** 2) > 1e-9 * top:
                # nalgebra's SVD loses the largest singular value when the matrix is numerically rank deficient
                degenerate = min(proj) <= 1e-20 * top
                yield ("svd-degenerate-scale" if degenerate else "svd-variance",
                       what + ": sum of squared projections on axis %d is %r, sv^2 = %r (n * variance / sv^2 = %r)" % (i, proj[i], sv[i] ** 2, proj[i] / max(sv[i] ** 2, 1e-300)))
                break
        if w is None and abs(r["var"][0] - sv[0] ** 2 / n) > 1e-12 * max(sv[0] ** 2 / n, 1e-300):
            yield ("svd-variance", what + ": basis_variances()[0] = %r, sv^2/n = %r" % (r["var"][0], sv[0] ** 2 / n))
        rank_true = sum(1 for s in sv if s > c["tol"])
        if r["rank"] != rank_true:
            yield ("svd-rank", what + ": rank(%r) = %d with sv %r" % (c["tol"], r["rank"], sv))
        # the rank reflects the dimension of the point set: exactly collinear / planar / coincident sets were generated as such
        # (their transverse spread is rounding, below 1e-11), generic ones have full rank; demanded when the spread that is
        # present is clearly above the tolerance
        cls = c.get("cls")
        spread = math.sqrt(sum(sum(x * x for x in v) for v in vecs))
        want = None
        if cls == "coincident" and scale * 1e-12 < c["tol"]:
            want = 0
        elif cls == "collinear" and spread > 100 * c["tol"] and scale * 1e-12 < c["tol"]:
            want = 1
        elif cls == "planar" and dim == 2 and spread > 100 * c["tol"] and scale * 1e-12 < c["tol"]:
            want = 1
        if want is not None and r["rank"] != want:
            yield ("svd-rank-dimension", what + ": a %s point set (spread %r) has rank(%r) = %d, singular values %r" % (cls, spread, c["tol"], r["rank"], sv))
        if max(abs(a - b) for a, b in zip(r["round"], c["q"])) > 1e-9 * max(scale, max(abs(x) for x in c["q"])):
            yield ("svd-roundtrip", what + ": from_basis(to_basis(%r)) = %r" % (c["q"], r["round"]))
        if dim == 3:
            i = r["iso_inv"]
            yield from frame_oracle(i["x"], i["y"], i["z"], "Iso3::from(&SvdBasis3)")
    elif k in ("c19.plane3", "c19.planepn"):
        n, d = r["n"], r["d"]
        if any(not math.isfinite(x) for x in n):
            if k == "c19.plane3":
                cr = cross([b - a for a, b in zip(c["p1"], c["p2"])], [b - a for a, b in zip(c["p1"], c["p3"])])
                if norm(cr) > 1e-12:
                    yield ("plane-nonfinite", "plane from %r %r %r has normal %r" % (c["p1"], c["p2"], c["p3"], n))
            return
        if abs(norm(n) - 1) > 1e-9:
            yield ("plane-unit", "plane normal %r is not unit" % (n,))
            return
        defs = [c["p1"], c["p2"], c["p3"]] if k == "c19.plane3" else [c["p"]]
        scale = max(1.0, max(abs(x) for p in defs for x in p))
        if k == "c19.plane3":
            cr = cross([b - a for a, b in zip(c["p1"], c["p2"])], [b - a for a, b in zip(c["p1"], c["p3"])])
            e1 = norm([b - a for a, b in zip(c["p1"], c["p2"])])
            e2 = norm([b - a for a, b in zip(c["p1"], c["p3"])])
            cond = norm(cr) / max(e1 * e2, 1e-300)
            if cond < 1e-6:
                return      # nearly collinear triple: the plane is ill-defined
            tolp = 1e-9 * scale / cond
        else:
            tolp = 1e-9 * scale
        for p in defs:
            if abs(dot(n, p) - d) > tolp:
                yield ("plane-contains", "plane (n=%r, d=%r) does not contain its defining point %r (off by %r)" % (n, d, p, dot(n, p) - d))
                return
        q = c["q"]
        qs = max(scale, max(abs(x) for x in q))
        if abs(r["signed"] - (dot(n, q) - d)) > 1e-9 * qs or abs(r["dist"] - abs(r["signed"])) > 0:
            yield ("plane-distance", "signed distance %r / distance %r of %r" % (r["signed"], r["dist"], q))
        pr = r["proj"]
        if abs(dot(n, pr) - d) > 1e-9 * qs:
            yield ("plane-project", "projection %r of %r is %r off the plane" % (pr, q, dot(n, pr) - d))
        off = [a - b for a, b in zip(q, pr)]
        if norm(cross(off, n)) > 1e-9 * qs:
            yield ("plane-project", "projection of %r moved sideways: offset %r vs normal %r" % (q, off, n))
        if abs(r["inv_signed"] + r["signed"]) > 1e-12 * qs:
            yield ("plane-invert", "inverted plane gives signed distance %r, original %r" % (r["inv_signed"], r["signed"]))
