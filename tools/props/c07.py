"""C07  Rigid alignment recovers a known displacement and reports honest residuals."""
import math
import common as C
from common import Some, Nat, Raw, opt, coq

LEVEL = "proof"
COQ_IMPORTS = ["Tie.C07"]
RULE = ("feature-rich references: 2D L-shapes, notched rectangles and irregular convex polygons (closed curves), 3D boxes and stepped prisms; "
        "20-60 sample points; displacements inside the basin (up to 10% of the size and 15 degrees; recovery is demanded when at the starting guess no sample point is farther than 5% of the smallest feature from where it was sampled - half of the basin cases are generated that deep) and, for the residual-honesty "
        "clause, also far outside it; initial guesses at the identity and within the basin, including guesses that are exactly the answer (every residual exactly zero; a uniformly oversize part in place, residuals orthogonal to the Jacobian); in 40% of the cases the scanned points are moved further by an arbitrary rigid motion (up to 100 feature sizes) that the guess undoes, so the guess is equally close to the answer but the points are far from the reference frame; both distance modes. distinct = distinct (tag, input)")
TRUSTED_BASE = [
    "Coq 8.16.1 kernel and vm_compute",
    "hand-written model coq/Model/LsqProblem.v of the two LeastSquaresProblem implementations as state machines over (parameters, moved points, closest points) with the closest-point query and the parameter-to-transform map as parameters (C02, C08)",
    "differential correspondence Tie/C07.v: the reported residuals against C02's exhaustive distance specification evaluated at the reported transform; oracle: every residual recomputed through the public API at the returned transform",
    "the Levenberg-Marquardt solver (crate levenberg-marquardt) is an arbitrary client of the problem; recovery and descent are certified per case, not proved",
]
ASSUMPTIONS = [
    "residual honesty is proved for every history of parameter updates (the solver is an arbitrary client)",
    "recovery to within 1e-5 of the feature size is required only for displacements inside the basin and is a per-case certificate",
]


# smallest feature of each reference shape, in units of its size parameter
FEATURE = {"lshape": 1.0, "notched": 0.8, "irregular": 0.8, "box": 2.0, "stepped": 1.0, "rect": 2.0}


def lshape(s):
    return [[0, 0], [4 * s, 0], [4 * s, 1 * s], [1.5 * s, 1 * s], [1.5 * s, 3 * s], [0, 3 * s]]


def notched(s):
    return [[0, 0], [5 * s, 0], [5 * s, 2 * s], [3 * s, 2 * s], [3 * s, 1.2 * s], [2 * s, 1.2 * s], [2 * s, 2 * s], [0, 2 * s]]


def irregular(rng, s):
    n = 7
    return [[s * (2 + rng.uniform(-0.4, 0.4)) * math.cos(2 * math.pi * i / n), s * (1.2 + rng.uniform(-0.3, 0.3)) * math.sin(2 * math.pi * i / n)] for i in range(n)]


def gen_curve(rng):
    s = rng.choice([0.5, 1.0, 10.0])
    kind = rng.choice(["lshape", "notched", "irregular"])
    ref = [[float(x), float(y)] for x, y in (lshape(s) if kind == "lshape" else notched(s) if kind == "notched" else irregular(rng, s))]
    fs = sorted(rng.random() for _ in range(rng.choice([20, 40, 60])))
    basin = rng.random() < 0.75
    if basin:
        disp = [rng.uniform(-0.1, 0.1) * s, rng.uniform(-0.1, 0.1) * s, rng.uniform(-0.25, 0.25)]
        if rng.random() < 0.7:      # moderately inside
            disp = [rng.uniform(-0.05, 0.05) * s, rng.uniform(-0.05, 0.05) * s, rng.uniform(-0.1, 0.1)]
        init = [0.0, 0.0, 0.0] if rng.random() < 0.6 else [rng.uniform(-0.05, 0.05) * s, rng.uniform(-0.05, 0.05) * s, rng.uniform(-0.1, 0.1)]
        deep = rng.random() < 0.5
        if deep:      # deep inside: no sample point starts farther than 5% of the smallest feature from its place; recovery is demanded here
            f = FEATURE[kind] * s
            disp = [rng.uniform(-0.012, 0.012) * f, rng.uniform(-0.012, 0.012) * f, rng.uniform(-0.006, 0.006) * f / s]
            init = [0.0, 0.0, 0.0] if rng.random() < 0.5 else [rng.uniform(-0.006, 0.006) * f, rng.uniform(-0.006, 0.006) * f, rng.uniform(-0.003, 0.003) * f / s]
    else:
        disp = [rng.uniform(-3, 3) * s, rng.uniform(-3, 3) * s, rng.uniform(-3, 3)]
        init = [rng.uniform(-1, 1) * s, rng.uniform(-1, 1) * s, rng.uniform(-1, 1)]
    if basin and deep and rng.random() < 0.25:
        # a pure shift along an axis, exact zeros elsewhere: the points of the edges (faces) parallel to it stay exactly on them
        f = FEATURE[kind] * s
        disp = [0.0, 0.0, 0.0]
        disp[rng.randrange(2)] = rng.choice([-1, 1]) * rng.choice([0.001, 0.005, 0.012]) * f
        init = [0.0, 0.0, 0.0]
    c = {"k": "c07.curve", "ref": ref, "fs": fs, "disp": disp, "init": init, "basin": basin, "deep": basin and deep, "kind": kind, "size": s}
    if rng.random() < 0.4:      # the scanned points sit far from the reference frame; the guess undoes that, so it is as close to the answer as before
        c["pre"] = [rng.uniform(-100, 100) * s, rng.uniform(-100, 100) * s, rng.uniform(-3, 3)]
    return c


def gen_curve_exact(rng):
    """the starting guess is exactly the answer: either every residual is exactly zero (points on axis-parallel edges of an
    undisplaced reference) or the residuals are orthogonal to the Jacobian (a uniformly oversize part sitting in place)"""
    s = rng.choice([0.5, 1.0, 10.0])
    if rng.random() < 0.5:
        kind = rng.choice(["lshape", "notched"])
        ref = [[float(x), float(y)] for x, y in (lshape(s) if kind == "lshape" else notched(s))]
        pts = []
        for _ in range(rng.choice([12, 24])):
            i = rng.randrange(len(ref))
            a, b = ref[i], ref[(i + 1) % len(ref)]
            f = rng.choice([0.25, 0.5, 0.75, 0.125, 0.375])
            pts.append([a[0] + (b[0] - a[0]) * f, a[1] + (b[1] - a[1]) * f])
        return {"k": "c07.curve", "ref": ref, "fs": [], "pts": pts, "disp": [0.0, 0.0, 0.0], "init": [0.0, 0.0, 0.0], "basin": True, "deep": True, "kind": kind, "size": s, "exact": "zero"}
    a, b, d = 2.0 * s, 1.0 * s, 0.01 * s
    ref = [[-a, -b], [a, -b], [a, b], [-a, b]]
    pts = []
    for x in (0.25 * a, 0.5 * a, 0.75 * a):
        pts += [[x, b + d], [-x, b + d], [x, -b - d], [-x, -b - d]]
    for y in (0.25 * b, 0.5 * b):
        pts += [[a + d, y], [a + d, -y], [-a - d, y], [-a - d, -y]]
    return {"k": "c07.curve", "ref": ref, "fs": [], "pts": pts, "disp": [0.0, 0.0, 0.0], "init": [0.0, 0.0, 0.0], "basin": True, "deep": True, "kind": "rect", "size": s, "exact": "oversize"}


def box_mesh(w):
    verts = [[(w[0] if i & 1 else 0.0), (w[1] if i & 2 else 0.0), (w[2] if i & 4 else 0.0)] for i in range(8)]
    faces = [[0, 2, 1], [1, 2, 3], [4, 5, 6], [5, 7, 6], [0, 1, 4], [1, 5, 4], [2, 6, 3], [3, 6, 7], [0, 4, 2], [2, 4, 6], [1, 3, 5], [3, 7, 5]]
    return verts, faces


def stepped(s):
    """two boxes of different size stacked: a stepped prism"""
    v1, f1 = box_mesh([4 * s, 3 * s, 1 * s])
    v2, f2 = box_mesh([2 * s, 1.5 * s, 1 * s])
    v2 = [[x + 0.5 * s, y + 0.7 * s, z + 1 * s] for x, y, z in v2]
    return v1 + v2, f1 + [[a + 8 for a in f] for f in f2]


def gen_mesh(rng):
    s = rng.choice([0.5, 1.0, 10.0])
    kind = rng.choice(["box", "stepped"])
    verts, faces = box_mesh([5 * s, 3 * s, 2 * s]) if kind == "box" else stepped(s)
    samples = []
    for _ in range(rng.choice([30, 60])):
        w = [rng.uniform(0.05, 1) for _ in range(3)]
        sw = sum(w)
        samples.append([rng.randrange(len(faces))] + [x / sw for x in w])
    basin = rng.random() < 0.75
    def aa(mag):
        v = [rng.uniform(-1, 1) for _ in range(3)]
        n = math.sqrt(sum(x * x for x in v)) or 1.0
        a = rng.uniform(-mag, mag)
        return [x / n * a for x in v]
    if basin:
        disp = [rng.uniform(-0.1, 0.1) * s for _ in range(3)] + aa(0.2)
        if rng.random() < 0.7:
            disp = [rng.uniform(-0.05, 0.05) * s for _ in range(3)] + aa(0.1)
        init = [0.0] * 6 if rng.random() < 0.6 else [rng.uniform(-0.05, 0.05) * s for _ in range(3)] + aa(0.08)
        deep = rng.random() < 0.5
        if deep:      # deep inside (see gen_curve)
            f = FEATURE[kind] * s
            disp = [rng.uniform(-0.01, 0.01) * f for _ in range(3)] + aa(0.005 * f / s)
            init = [0.0] * 6 if rng.random() < 0.5 else [rng.uniform(-0.005, 0.005) * f for _ in range(3)] + aa(0.0025 * f / s)
    else:
        disp = [rng.uniform(-3, 3) * s for _ in range(3)] + aa(3.0)
        init = [rng.uniform(-1, 1) * s for _ in range(3)] + aa(1.0)
    axis = basin and deep and rng.random() < 0.25
    if axis:
        # a pure shift along an axis (see gen_curve)
        f = FEATURE[kind] * s
        disp = [0.0] * 6
        disp[rng.randrange(3)] = rng.choice([-1, 1]) * rng.choice([0.001, 0.005, 0.01]) * f
        init = [0.0] * 6
    c = {"k": "c07.mesh", "verts": verts, "faces": faces, "samples": samples, "disp": disp, "init": init, "mode": rng.choice(["point", "plane"]),
         "basin": basin, "deep": basin and deep, "kind": kind, "size": s, "timeout_ms": 60000}
    r = rng.random()
    if axis:
        return c
    if r < 0.4:
        c["pre"] = [rng.uniform(-100, 100) * s for _ in range(3)] + aa(3.0)
    elif r < 0.55 and basin:
        # the guess is exactly a gimbal-lock pose (pitch +-pi/2 with a sizeable roll and yaw): the starting guess must survive
        # the conversion to rotation-centred parameters
        c["pre_inv_euler"] = [rng.uniform(-3, 3) * s for _ in range(3)] + [rng.uniform(-3, 3), rng.choice([-1, 1]) * math.pi / 2, rng.uniform(-3, 3)]
        c["init"] = [0.0] * 6
    elif r < 0.7:
        # a stored result used as the next starting guess: the guess is exactly the answer (and is not the identity)
        c["init_exact"] = True
        c["basin"] = True
        c["deep"] = True
    return c


def corpus():
    yield {"k": "c07.curve", "ref": [[float(x), float(y)] for x, y in lshape(1.0)], "fs": [i / 25.0 for i in range(25)], "disp": [0.05, -0.03, 0.1], "init": [0.0, 0.0, 0.0],
           "basin": True, "kind": "lshape", "size": 1.0}


def generate(rng, tier):
    n = 120 if tier == "quick" else 1600
    return [gen_curve(rng) for _ in range(n)] + [gen_curve_exact(rng) for _ in range(n // 10)] + [gen_mesh(rng) for _ in range(n // 2)]


def tag(c, r):
    res = r.get("result", {})
    st = "err" if res.get("err") else "panic" if res.get("panic") else "ok"
    return "%s:%s:%s:%s%s:%s" % (c["k"], c["kind"], c.get("mode", "-"), ("exact-" + c["exact"] if c.get("exact") else "deep" if c.get("deep") else "basin") if c["basin"] else "far", "+pre" if "pre" in c else "+gimbal" if "pre_inv_euler" in c else "", st)


def T(p):
    return tuple(float(x) for x in p)


def coq_check(c, r):
    res = r.get("result", {})
    if not res or res.get("err") or res.get("panic"):
        return None
    t = res["transform"]
    if c["k"] == "c07.curve":
        obs = [(x, 1e-6 < e["fraction"] < 1 - 1e-6) for x, e in zip(res["residuals"], res["at_result"])]
        rig = Raw("(@mkRigid2 FNum %s %s %s)" % (coq(t["c"]), coq(t["s"]), coq(T(t["t"]))))
        return "check_curve %s %s %s %s" % (coq([T(p) for p in r["curve"]]), coq(rig), coq([T(p) for p in r["displaced"]]), coq(obs))
    if c["k"] == "c07.mesh" and c["mode"] == "point":
        rig = Raw("(@mkRigid3 FNum %s %s %s %s)" % (coq(T(t["x"])), coq(T(t["y"])), coq(T(t["z"])), coq(T(t["t"]))))
        return "check_mesh_point %s %s %s %s %s" % (coq([T(p) for p in c["verts"]]), coq([tuple(int(i) for i in f) for f in c["faces"]]), coq(rig),
                                                  coq([T(p) for p in r["displaced"]]), coq(list(res["residuals"])))
    return None


def oracle(c, r):
    k = c["k"]
    if r.get("err_curve"):
        return
    res = r["result"]
    s = c["size"]
    what = "%s alignment to a %s (size %r, %d points, displacement %r, guess %r%s)" % ("2D" if k == "c07.curve" else "3D " + c["mode"] + "-mode", c["kind"], s, len(r["points"]), c["disp"], c["init"], ", scanned points moved further by %r and the guess composed with the inverse" % c["pre"] if "pre" in c else ", guess = translation + Euler angles %r (gimbal-lock pose), scanned points moved accordingly" % c["pre_inv_euler"] if "pre_inv_euler" in c else "")
    if res.get("panic"):
        yield ("align-panic", what + " panicked")
        return
    if res.get("err"):
        if c["basin"]:
            yield ("align-failed-in-basin", what + ": the solver reported failure for a displacement inside the basin")
        return
    rr, ev = res["residuals"], res["at_result"]
    if len(rr) != len(ev):
        yield ("residual-count", what + ": %d residuals for %d points" % (len(rr), len(ev)))
        return
    # honesty: residual i is the mode-specific distance of point i moved by the RETURNED transform
    for i, (x, e) in enumerate(zip(rr, ev)):
        want = e["proj"] if k == "c07.curve" else (e["dist"] if c["mode"] == "point" else abs(e["proj"]))
        if abs(x - want) > 1e-9 * max(1.0, s):
            yield ("residual-honest", what + ": residual %d is %r, but point %d moved by the returned transform is %r from the reference" % (i, x, i, want))
            break
    # descent: not worse than at the starting guess
    key = (lambda e: e["proj"]) if k == "c07.curve" else ((lambda e: e["dist"]) if c["mode"] == "point" else (lambda e: abs(e["proj"])))
    ss0 = sum(key(e) ** 2 for e in r["at_init"])
    ss1 = sum(x * x for x in rr)
    if ss1 > ss0 * (1 + 1e-9) + 1e-18:
        yield ("align-descent", what + ": residual sum of squares %r at the result exceeds %r at the starting guess" % (ss1, ss0))
    # recovery inside the basin: returned transform composed with the displacement is the identity on the points
    # the stated basin: at the starting guess no sample point is farther than 5% of the smallest feature from where it was sampled
    start = max(math.dist(e["moved"], p) for e, p in zip(r["at_init"], r["points"]))
    well_inside = c["basin"] and start <= 0.05 * FEATURE[c["kind"]] * s
    if well_inside:
        worst = max(math.dist(e["moved"], p) for e, p in zip(ev, r["points"]))
        if worst > 1e-5 * s:
            yield ("align-recovery", what + ": after alignment a point is %r from where it was sampled (1e-5 of the size allowed)" % worst)
