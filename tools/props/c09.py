"""C09  Least-squares fits are optimal."""
import math
import common as C
from common import Some, Nat, Raw, opt, coq

LEVEL = "proof"
COQ_IMPORTS = ["Tie.C09"]
RULE = ("polynomial sizes K=2..6 with asymmetric, clustered and offset abscissae (>= K distinct), exact and noisy ordinates, with and "
        "without positive weights; series best-fit line vs the degree-1 fit; three-point circles incl. collinear and nearly "
        "collinear triples; circle-fit problem driven through random set_params histories in both weighting modes (hook); "
        "end-to-end circle fits on arcs of 60..360 degrees from nearby guesses; seeded RANSAC on contaminated data. "
        "distinct = distinct (tag, input)")
TRUSTED_BASE = [
    "Coq 8.16.1 kernel and vm_compute",
    "hand-written model coq/Model/Poly.v; the matrix inverse is an oracle: the tie checks that the implementation's coefficients solve the MODEL's normal equations row by row (Tie/C09.v), so a wrong power sum or right-hand side in the code shows up as a residual",
    "levenberg-marquardt crate and the RANSAC index stream are external: convergence / recovery are certified per run by the oracles (stationarity of the returned circle, inlier count), not proved",
    "hook geom2::circle2_verif::CircleFitDriver (feature verif) exposes the private LM problem",
]
ASSUMPTIONS = [
    "theorems over exact reals; nalgebra try_inverse is assumed to return a solution of M c = rhs (checked per case)",
    "abscissae are kept within |x| <= 4 so that the Hankel matrix stays well enough conditioned for the 1e-6 row test",
]


def rnd_xs(rng, n):
    r = rng.random()
    if r < 0.3:
        xs = [rng.uniform(0, 4) for _ in range(n)]                    # one-sided
    elif r < 0.5:
        c = rng.uniform(-3, 3)
        xs = [c + rng.uniform(-0.3, 0.3) for _ in range(n)]          # clustered, offset
    elif r < 0.7:
        xs = [float(i) for i in rng.sample(range(-2, 6), min(n, 8))] + [rng.uniform(-2, 4) for _ in range(max(0, n - 8))]
    else:
        xs = [rng.uniform(-3, 4) for _ in range(n)]
    return xs


def gen_poly(rng):
    K = rng.randint(2, 6)
    n = K + rng.choice([0, 1, 3, 8, 20])
    xs = rnd_xs(rng, n)
    coef = [rng.uniform(-3, 3) for _ in range(K)]
    exact = rng.random() < 0.6
    ys = [sum(c * x ** i for i, c in enumerate(coef)) + (0.0 if exact else rng.uniform(-0.5, 0.5)) for x in xs]
    w = None if rng.random() < 0.5 else [rng.uniform(0.1, 5.0) for _ in xs]
    return {"k": "c09.poly", "K": K, "xs": xs, "ys": ys, "w": w, "probe": [rng.uniform(-3, 4) for _ in range(3)],
            "coef": coef if exact else None}


def gen_line(rng):
    n = rng.choice([2, 3, 5, 12])
    x = rng.uniform(-5, 5)
    xs = []
    for _ in range(n):
        xs.append(x)
        x += rng.uniform(0.1, 2.0)
    ys = [rng.uniform(-3, 3) for _ in xs]
    return {"k": "c09.line", "xs": xs, "ys": ys}


def gen_circle3(rng):
    r = rng.random()
    if r < 0.7:
        cx, cy, rad = rng.uniform(-5, 5), rng.uniform(-5, 5), rng.uniform(0.1, 10)
        if rng.random() < 0.3:      # a small circle far from the origin (part coordinates): nothing about a circle depends on where it is
            off = rng.choice([100.0, 1000.0, 5000.0])
            cx, cy, rad = rng.uniform(-1, 1) * off, rng.uniform(-1, 1) * off, rng.uniform(0.5, 3)
        a = sorted(rng.uniform(0, 2 * math.pi) for _ in range(3))
        rng.shuffle(a)
        pts = [[cx + rad * math.cos(t), cy + rad * math.sin(t)] for t in a]
    elif r < 0.85:
        p, d = [rng.uniform(-3, 3), rng.uniform(-3, 3)], [rng.uniform(-1, 1), rng.uniform(-1, 1)]
        pts = [[p[0] + d[0] * t, p[1] + d[1] * t] for t in (0.0, rng.uniform(0.5, 2), rng.uniform(2.5, 4))]
    else:
        pts = [[rng.uniform(-3, 3), rng.uniform(-3, 3)] for _ in range(3)]
    return {"k": "c09.circle3", "p0": pts[0], "p1": pts[1], "p2": pts[2]}


def arc_points(rng, cx, cy, rad, extent, n, noise=0.0):
    a0 = rng.uniform(0, 2 * math.pi)
    return [[cx + (rad + rng.uniform(-noise, noise)) * math.cos(a0 + extent * i / (n - 1)),
             cy + (rad + rng.uniform(-noise, noise)) * math.sin(a0 + extent * i / (n - 1))] for i in range(n)]


def lattice_circle(rng):
    """integer-offset (Pythagorean) samples: with a concentric guess of integer radius every radial residual is the same
    float, so the Gaussian weighting divides by a zero standard deviation"""
    kq = rng.choice([1, 2, 3])
    cx, cy = float(rng.randint(-4, 4)), float(rng.randint(-4, 4))
    offs = [(3, 4), (4, 3), (-3, 4), (-4, 3), (3, -4), (4, -3), (-3, -4), (-4, -3), (5, 0), (0, 5), (-5, 0), (0, -5)]
    rng.shuffle(offs)
    pts = [[cx + kq * a, cy + kq * b] for a, b in offs[:rng.choice([5, 8, 12])]]
    return cx, cy, 5.0 * kq, pts


def gen_fit(rng):
    if rng.random() < 0.2:
        cx, cy, rad, pts = lattice_circle(rng)
        g = [cx, cy, rad + rng.choice([-1.0, 1.0, 0.0])]
        return {"k": "c09.fit", "pts": pts, "guess": g, "sigma": rng.choice([None, 2.0, 3.0, 2.0]), "truth": [cx, cy, rad], "noise": 0.0}
    cx, cy, rad = rng.uniform(-5, 5), rng.uniform(-5, 5), rng.uniform(0.5, 5)
    extent = rng.uniform(math.pi / 3, 2 * math.pi)
    noise = 0.0 if rng.random() < 0.6 else 0.01 * rad
    pts = arc_points(rng, cx, cy, rad, extent, rng.choice([8, 20, 50]), noise)
    g = [cx + rng.uniform(-0.1, 0.1) * rad, cy + rng.uniform(-0.1, 0.1) * rad, rad * rng.uniform(0.9, 1.1)]
    return {"k": "c09.fit", "pts": pts, "guess": g, "sigma": None if rng.random() < 0.6 else rng.choice([2.0, 3.0]),
            "truth": [cx, cy, rad], "noise": noise}


def gen_problem(rng):
    if rng.random() < 0.15:
        cx, cy, rad, pts = lattice_circle(rng)
        hist = [[cx, cy, rad + rng.choice([-1.0, 1.0, 0.0, 2.0])] for _ in range(rng.randint(1, 3))]
        return {"k": "c09.problem", "pts": pts, "guess": [cx, cy, rad - 1.0], "sigma": rng.choice([1.0, 2.0]), "history": hist}
    cx, cy, rad = rng.uniform(-3, 3), rng.uniform(-3, 3), rng.uniform(0.5, 3)
    pts = arc_points(rng, cx, cy, rad, rng.uniform(1, 6), rng.choice([3, 6, 12]), 0.05 * rad)
    hist = [[cx + rng.uniform(-1, 1), cy + rng.uniform(-1, 1), rad * rng.uniform(0.5, 1.5)] for _ in range(rng.randint(1, 4))]
    return {"k": "c09.problem", "pts": pts, "guess": [cx, cy, rad], "sigma": None if rng.random() < 0.5 else rng.choice([1.0, 2.0]),
            "history": hist}


def gen_ransac_small(rng):
    """every point must be eligible as a defining point: exactly three points (any order), or a short noisy arc plus one far
    point of the circle in every list position, without outliers"""
    cx, cy, rad = rng.uniform(-3, 3), rng.uniform(-3, 3), rng.uniform(1, 3)
    a0 = rng.uniform(0, 2 * math.pi)
    if rng.random() < 0.5:
        angs = [a0, a0 + rng.uniform(1.5, 2.5), a0 + rng.uniform(3.5, 4.5)]
        pts = [[cx + rad * math.cos(a), cy + rad * math.sin(a)] for a in angs]
        rng.shuffle(pts)
        return {"k": "c09.ransac", "pts": pts, "tol": 0.01, "iters": 300, "min_r": None, "max_r": None, "truth": [cx, cy, rad], "small": "three"}
    m = rng.choice([3, 4, 5])
    pts = [[cx + (rad + rng.uniform(-0.001, 0.001)) * math.cos(a0 + 0.05 * i), cy + (rad + rng.uniform(-0.001, 0.001)) * math.sin(a0 + 0.05 * i)] for i in range(m)]
    far = [cx + rad * math.cos(a0 + math.pi), cy + rad * math.sin(a0 + math.pi)]
    pts.insert(rng.choice([0, len(pts), len(pts), rng.randrange(len(pts) + 1)]), far)
    return {"k": "c09.ransac", "pts": pts, "tol": 0.01, "iters": 300, "min_r": None, "max_r": None, "truth": [cx, cy, rad], "small": "arc+far"}


def gen_ransac(rng):
    cx, cy, rad = rng.uniform(-3, 3), rng.uniform(-3, 3), rng.uniform(1, 3)
    pts = arc_points(rng, cx, cy, rad, rng.uniform(2, 6), 40, 0.002)
    pts += [[rng.uniform(-8, 8), rng.uniform(-8, 8)] for _ in range(10)]
    rng.shuffle(pts)
    return {"k": "c09.ransac", "pts": pts, "tol": 0.01, "iters": 300, "min_r": None, "max_r": None, "truth": [cx, cy, rad]}


def corpus():
    # D6 witness (fixed)
    xs = [0.0, 1.0, 2.0, 3.0, 5.0]
    yield {"k": "c09.poly", "K": 3, "xs": xs, "ys": [1 + 2 * x + 3 * x * x for x in xs], "w": None, "probe": [1.5], "coef": [1.0, 2.0, 3.0]}
    yield {"k": "c09.poly", "K": 2, "xs": [1.0, 2.0, 4.0], "ys": [3.0, 5.0, 9.0], "w": [1.0, 2.0, 3.0], "probe": [0.0], "coef": [1.0, 2.0]}
    yield {"k": "c09.circle3", "p0": [0.0, 0.0], "p1": [1.0, 1.0], "p2": [2.0, 2.0]}


def generate(rng, tier):
    n = 80 if tier == "quick" else 1200
    out = []
    for _ in range(n):
        out += [gen_poly(rng), gen_line(rng), gen_circle3(rng), gen_problem(rng)]
    for _ in range(n // 4):
        out += [gen_fit(rng)]
    for _ in range(n // 20):
        out += [gen_ransac(rng), gen_ransac_small(rng), gen_ransac_small(rng)]
    return out


def tag(c, r):
    k = c["k"]
    if r.get("err"):
        return k + ":err"
    if k == "c09.poly":
        return "%s:K%d:%s:%s" % (k, c["K"], "w" if c["w"] else "nw", "exact" if c["coef"] else "noisy")
    if k == "c09.fit":
        return "%s:%s:%s" % (k, "gauss" if c["sigma"] else "all", "noisy" if c["noise"] else "exact")
    if k == "c09.problem":
        return "%s:%s:h%d" % (k, "gauss" if c["sigma"] else "all", len(c["history"]))
    if k == "c09.ransac":
        return "%s:%s" % (k, c.get("small", "contaminated"))
    return k


def coq_check(c, r):
    k = c["k"]
    if k == "c09.poly":
        # row tolerance: 1e-6, widened by what the conditioning of the normal equations explains
        tol = max(1e-6, 1e5 * hankel_cond(c["K"], c["xs"], c["w"]) * 2.3e-16)
        if not math.isfinite(tol) or tol > 1e-2:
            return None     # hopelessly conditioned: reported through the known finding only
        return "check_poly %s %s %s %s %s %s" % (coq(c["K"]), coq(tol), coq(c["xs"]), coq(c["ys"]), coq(opt(c["w"])), coq(list(r["c"])))
    if k == "c09.line":
        if r.get("err"):
            return None
        two = lambda v: coq(None if v is None else Some((v[0], v[1])))
        x0, y0, x1, y1 = c["xs"][0], c["ys"][0], c["xs"][-1], c["ys"][-1]
        return "both (check_line %s %s %s %s) (both (check_two_points %s %s %s %s %s) (check_two_points %s %s %s %s %s))" % (
            coq(c["xs"]), coq(c["ys"]), coq(r["m"]), coq(r["b"]), coq(x0), coq(y0), coq(x1), coq(y1), two(r["two"]), coq(x1), coq(y1), coq(x0), coq(y0), two(r["two_rev"]))
    if k == "c09.circle3":
        rr = None if r.get("err") else Some((r["x"], r["y"], r["r"]))
        return "check_circle3 %s %s %s %s" % (coq(tuple(c["p0"])), coq(tuple(c["p1"])), coq(tuple(c["p2"])), coq(rr))
    if k == "c09.problem":
        hist = [tuple(c["guess"])] + [tuple(h) for h in c["history"]]
        hist = [((h[0], h[1]), h[2]) for h in hist]
        obs = [(list(o["res"]), list(o["w"]), [tuple(row) for row in o["jac"]]) for o in r["out"]]
        return "check_states %s %s %s %s 1" % (coq([tuple(p) for p in c["pts"]]), coq(opt(c["sigma"])), coq(hist), coq(obs))
    return None


def hankel_cond(K, xs, w):
    """infinity-norm condition number of the exact Hankel matrix of the float abscissae (rational arithmetic)"""
    from fractions import Fraction as F
    X = [F(x) for x in xs]
    W = [F(1) if w is None else F(v) for v in (w or xs)]
    if w is None:
        W = [F(1)] * len(X)
    sums = [sum(wi * xi ** j for wi, xi in zip(W, X)) for j in range(2 * K - 1)]
    M = [[sums[r + c] for c in range(K)] for r in range(K)]
    A = [row[:] + [F(int(i == j)) for j in range(K)] for i, row in enumerate(M)]
    for col in range(K):
        piv = max(range(col, K), key=lambda r: abs(A[r][col]))
        if A[piv][col] == 0:
            return float("inf")
        A[col], A[piv] = A[piv], A[col]
        pv = A[col][col]
        A[col] = [v / pv for v in A[col]]
        for r in range(K):
            if r != col and A[r][col] != 0:
                f = A[r][col]
                A[r] = [a - f * b for a, b in zip(A[r], A[col])]
    inv = [row[K:] for row in A]
    n1 = max(sum(abs(v) for v in row) for row in M)
    n2 = max(sum(abs(v) for v in row) for row in inv)
    return float(n1 * n2)


def wsum(f, xs, ys, w):
    return sum((1.0 if w is None else w[i]) * f(xs[i], ys[i]) for i in range(len(xs)))


def oracle(c, r):
    k = c["k"]
    if k == "c09.poly":
        K, xs, ys, w, coef = c["K"], c["xs"], c["ys"], c["w"], list(r["c"])
        if any(not math.isfinite(v) for v in coef):
            yield ("poly-nonfinite", "least_squares returned %r" % (coef,))
            return
        cond = hankel_cond(K, xs, w)
        # what conditioning of the normal equations can cost: x = inverse(M) * b with an explicitly inverted matrix has
        # forward error up to c * cond(M)^2 * u (Higham, Accuracy and Stability, ch. 14: cond * |inv||b|/|x| <= cond^2),
        # not the c * cond * u of a backward-stable solve
        explained = max(1e5 * cond, 50.0 * cond * cond) * 2.3e-16 + 1e-9
        def p(x):
            return sum(cc * x ** i for i, cc in enumerate(coef))
        # orthogonality of the residual to every monomial column, relative to the size of the terms
        for kk in range(K):
            s = wsum(lambda x, y: x ** kk * (y - p(x)), xs, ys, w)
            scale = wsum(lambda x, y: abs(x ** kk) * (abs(y) + sum(abs(cc) * abs(x) ** i for i, cc in enumerate(coef))), xs, ys, w) + 1e-30
            if abs(s) > min(1e-6, explained) * scale:
                if abs(s) <= explained * scale and abs(s) <= 1e-6 * scale:
                    continue
                yield ("poly-illconditioned" if abs(s) <= explained * scale or cond > 1e10 else "poly-orthogonality",
                       "K=%d: residual is not orthogonal to x^%d (sum %r, scale %r) on xs=%r" % (K, kk, s, scale, xs))
                break
        if c["coef"] is not None:
            truth = c["coef"]
            scale = max(1.0, max(abs(t) for t in truth))
            if any(abs(a - b) > 1e-5 * scale for a, b in zip(coef, truth)):
                # ill-conditioned sets may legitimately lose digits: judge by the values instead
                worst = max(abs(p(x) - y) for x, y in zip(xs, ys))
                if worst > 1e-6 * max(1.0, max(abs(y) for y in ys)):
                    relerr = max(abs(a - b) for a, b in zip(coef, truth)) / scale
                    yield ("poly-illconditioned" if relerr <= explained or cond > 1e10 else "poly-exact-recovery",
                           "exact polynomial %r sampled at %r was fitted as %r" % (truth, xs, coef))
    elif k == "c09.line":
        if r.get("err"):
            return
        if not (C.close(r["m"], r["pc"][1], 1e-6) and C.close(r["b"], r["pc"][0], 1e-6)):
            yield ("line-vs-poly", "best_fit_line (m=%r, b=%r) differs from the degree-1 least-squares fit %r" % (r["m"], r["b"], r["pc"]))
        # the line through two samples, whichever is given first
        x0, y0, x1, y1 = c["xs"][0], c["ys"][0], c["xs"][-1], c["ys"][-1]
        for name, v in (("try_from_points(first, last)", r["two"]), ("try_from_points(last, first)", r["two_rev"])):
            if abs(x1 - x0) > 1e-11:
                if v is None:
                    yield ("line-two-points", "%s refused for distinct abscissae %r and %r" % (name, x0, x1))
                elif max(abs(v[0] * x0 + v[1] - y0), abs(v[0] * x1 + v[1] - y1)) > 1e-9 * (1 + abs(v[0]) * max(abs(x0), abs(x1)) + abs(v[1])):
                    yield ("line-two-points", "%s = (m %r, b %r) does not pass through (%r, %r) and (%r, %r)" % (name, v[0], v[1], x0, y0, x1, y1))
            elif x1 == x0 and v is not None:
                yield ("line-two-points", "%s answered (m %r, b %r) for equal abscissae" % (name, v[0], v[1]))
    elif k == "c09.circle3":
        pts = [c["p0"], c["p1"], c["p2"]]
        det = (pts[0][0] - pts[1][0]) * (pts[1][1] - pts[2][1]) - (pts[1][0] - pts[2][0]) * (pts[0][1] - pts[1][1])
        if r.get("err"):
            if abs(det) > 1e-5:
                yield ("circle3-rejected", "general-position triple %r rejected as collinear" % (pts,))
            return
        if abs(det) < 1e-7:
            yield ("circle3-collinear", "collinear triple %r produced a circle" % (pts,))
            return
        for p in pts:
            d = math.hypot(p[0] - r["x"], p[1] - r["y"])
            if abs(d - r["r"]) > 1e-6 * max(1.0, r["r"]) / max(abs(det), 1e-6) ** 0:
                if abs(d - r["r"]) > 1e-7 * max(1.0, r["r"]) / min(1.0, abs(det)):
                    yield ("circle3-through", "circle through %r misses point %r by %r" % (pts, p, d - r["r"]))
                    break
    elif k == "c09.problem":
        hist = [c["guess"]] + c["history"]
        for h, o in zip(hist, r["out"]):
            for p, res, w, row in zip(c["pts"], o["res"], o["w"], o["jac"]):
                d = math.hypot(p[0] - h[0], p[1] - h[1])
                if not C.close(res, (d - h[2]) * w, 1e-9):
                    yield ("fit-residual", "residual %r at params %r is not (|p-c|-r)*w = %r" % (res, h, (d - h[2]) * w))
                    return
                if w not in (0.0, 1.0):
                    yield ("fit-weight", "weight %r" % (w,))
                    return
                want = [-(p[0] - h[0]) / d * w, -(p[1] - h[1]) / d * w, -w]
                if any(not C.close(a, b, 1e-9) for a, b in zip(row, want)):
                    yield ("fit-jacobian", "jacobian row %r at params %r, derivative of the residual is %r" % (row, h, want))
                    return
            if c["sigma"] is None and any(w != 1.0 for w in o["w"]):
                yield ("fit-weight-all", "BestFit::All produced weights %r" % (o["w"],))
    elif k == "c09.fit":
        if r.get("err"):
            yield ("fit-failed", "fitting_circle failed from a nearby guess on a %d-point arc" % len(c["pts"]))
            return
        cx, cy, rad = r["x"], r["y"], r["r"]
        t = c["truth"]
        # exact samples: also under Gaussian clipping (sigma >= 2 keeps at least 3/4 of the points by Chebyshev, and
        # any three exact samples determine the circle)
        if c["noise"] == 0.0:
            if max(abs(cx - t[0]), abs(cy - t[1]), abs(rad - t[2])) > 1e-6 * max(1.0, t[2]):
                yield ("fit-recovery", "exact samples of circle %r were fitted as %r" % (t, [cx, cy, rad]))
        if c["sigma"] is None:
            g = [0.0, 0.0, 0.0]
            tot = 0.0
            for p in c["pts"]:
                d = math.hypot(p[0] - cx, p[1] - cy)
                res = d - rad
                g[0] += -(p[0] - cx) / d * res
                g[1] += -(p[1] - cy) / d * res
                g[2] += -res
                tot += abs(res)
            if max(abs(x) for x in g) > 1e-6 * max(tot, 1e-9) + 1e-9:
                yield ("fit-stationary", "returned circle %r is not a stationary point: gradient %r (sum |res| %r)" % ([cx, cy, rad], g, tot))
    elif k == "c09.ransac":
        if r.get("err"):
            yield ("ransac-failed", "no candidate found among %d points%s" % (len(c["pts"]), " (%s)" % c["small"] if c.get("small") else ""))
            return
        t = c["truth"]
        base = sum(1 for p in c["pts"] if abs(math.hypot(p[0] - t[0], p[1] - t[1]) - t[2]) < c["tol"])
        if r["inliers"] < (base if c.get("small") else 0.9 * base):
            yield ("ransac-support", "RANSAC circle has %d inliers, the generating circle has %d" % (r["inliers"], base))
