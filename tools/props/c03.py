"""C03  Measurements do not depend on the coordinate frame."""
import math
import common as C
from common import Some, Nat, Raw, opt, coq
from props import c01

LEVEL = "proof"
COQ_IMPORTS = ["Tie.C03"]
RULE = ("2D/3D curves (C01's generator, open/closed), rigid motions with any angle / rotation vector (incl. 0, pi, small) and translations "
        "to 1e3, query points near and far, arc-length fractions incl. 0 and 1; planes, surface points, point clouds with normals, a box mesh, "
        "2D<->3D distances; transform then inverse, and sequence versus composition. distinct = distinct (tag, input)")
TRUSTED_BASE = [
    "Coq 8.16.1 kernel and vm_compute",
    "hand-written model coq/Model/Rigid.v (on Model/Curve.v, Model/Frames.v), tied by differential correspondence Tie/C03.v on the matrix that nalgebra's isometry actually applies (read back from the images of the axes and of the origin)",
    "metamorphic oracles in tools/props/c03.py on the implementation's outputs in both frames",
]
ASSUMPTIONS = [
    "theorems over exact reals for an orthonormal rotation matrix; nalgebra's unit quaternion / unit complex is orthonormal to rounding (checked per case)",
    "closest-point equivariance is checked by the metamorphic oracle (C02 covers optimality); mesh distance only on a box",
    "a curve whose consecutive vertices are within rounding of the tolerance apart may de-duplicate differently after a motion; such cases are excluded by the generator (vertex spacing is either far above or far below the tolerance)",
]


def rnd_iso2(rng):
    return {"angle": rng.choice([0.0, math.pi, math.pi / 2, 1e-9, rng.uniform(-7, 7), rng.uniform(-7, 7)]),
            "tx": rng.choice([0.0, rng.uniform(-5, 5), rng.uniform(-1000, 1000)]), "ty": rng.choice([0.0, rng.uniform(-5, 5), rng.uniform(-1000, 1000)])}


def rnd_iso3(rng):
    ax = [rng.uniform(-1, 1) for _ in range(3)]
    n = math.sqrt(sum(x * x for x in ax)) or 1.0
    ang = rng.choice([0.0, math.pi, 1e-9, rng.uniform(-3.1, 3.1), rng.uniform(-3.1, 3.1)])
    s = rng.choice([1.0, 5.0, 1000.0])
    return {"axisangle": [x / n * ang for x in ax], "t": [rng.uniform(-1, 1) * s for _ in range(3)]}


def clean_pts(rng, dim):
    """vertices well separated relative to the tolerance (no near-tolerance decisions that rounding could flip)"""
    n = rng.choice([2, 3, 5, 9, 20])
    scale = rng.choice([0.1, 1.0, 1.0, 20.0])
    pts = [[rng.uniform(-1, 1) * scale for _ in range(dim)]]
    for _ in range(n - 1):
        step = scale * rng.choice([0.05, 0.5, 1.0])
        while True:
            d = [rng.uniform(-1, 1) * step for _ in range(dim)]
            if math.sqrt(sum(x * x for x in d)) > 1e-3 * scale:
                break
        pts.append([a + b for a, b in zip(pts[-1], d)])
    return pts, scale


def gen_curve(rng, dim):
    pts, scale = clean_pts(rng, dim)
    neartol = rng.random() < 0.15
    if neartol:
        # consecutive vertices 1.2 - 1.7 tolerances apart along the coordinate axes: which of them survive the de-duplication must
        # not depend on the frame (a distance decides, not the coordinates one by one)
        scale = rng.choice([1.0, 10.0])
        tol = 1e-3 * scale
        p = [rng.uniform(-1, 1) * scale for _ in range(dim)]
        pts = [list(p)]
        for i in range(rng.choice([10, 25, 40])):
            p[i % dim] += rng.uniform(1.2, 1.7) * tol
            pts.append(list(p))
    qs = [[rng.uniform(-2, 2) * scale for _ in range(dim)] for _ in range(3)]
    qs.append([a + 1e-3 * scale for a in pts[len(pts) // 2]])
    fs = [0.0, 1.0, rng.random(), rng.random(), 0.5]
    c = {"k": "c03.curve%d" % dim, "pts": pts, "tol": 1e-3 * scale if neartol else 1e-6 * scale, "qs": qs, "fs": fs, "scale": scale}
    if dim == 2:
        closed = rng.random() < 0.4 and len(pts) >= 3
        c.update({"closed": closed, "iso": rnd_iso2(rng), "n": [rng.uniform(-1, 1), rng.uniform(0.1, 1)]})
    else:
        c["iso"] = rnd_iso3(rng)
    return c


def gen_geom3(rng):
    pts = [[rng.uniform(-3, 3) for _ in range(3)] for _ in range(rng.choice([1, 4, 10]))]
    return {"k": "c03.geom3", "pts": pts, "q": [rng.uniform(-4, 4) for _ in range(3)], "n": [rng.uniform(-1, 1), rng.uniform(-1, 1), rng.uniform(0.1, 1)],
            "iso": rnd_iso3(rng), "iso2": rnd_iso3(rng), "box": [rng.uniform(0.5, 3), rng.uniform(0.5, 3), rng.uniform(0.5, 3)],
            "dir2": None if rng.random() < 0.3 else [rng.uniform(-1, 1), rng.choice([-1, 1]) * rng.uniform(0.05, 1)]}


def corpus():
    sq = [[0.0, 0.0], [1.0, 0.0], [1.0, 1.0], [0.0, 1.0]]
    yield {"k": "c03.curve2", "pts": sq, "tol": 1e-6, "closed": True, "iso": {"angle": 1.0, "tx": 2.0, "ty": -3.0}, "qs": [[0.5, 0.2], [2.0, 2.0], [0.3, 0.3], [-1.0, 0.5]],
           "fs": [0.0, 0.3, 1.0], "n": [0.0, 1.0], "scale": 1.0}


def generate(rng, tier):
    n = 120 if tier == "quick" else 2000
    out = []
    for _ in range(n):
        out += [gen_curve(rng, 2), gen_curve(rng, 3), gen_geom3(rng)]
    return out


def tag(c, r):
    k = c["k"]
    if r.get("err") or r.get("panic"):
        return k + (":panic" if r.get("panic") else ":rejected")
    if k == "c03.curve2":
        return "%s:%s:%d" % (k, "closed" if c["closed"] else "open", min(len(c["pts"]), 9))
    return k


def T(p):
    return tuple(float(x) for x in p)


def rig2(i):
    return Raw("(@mkRigid2 FNum %s %s %s)" % (coq(i["c"]), coq(i["s"]), coq(T(i["t"]))))


def rig3(i):
    cols = [(i["r0"][j], i["r1"][j], i["r2"][j]) for j in range(3)]
    return Raw("(@mkRigid3 FNum %s %s %s %s)" % (coq(T(cols[0])), coq(T(cols[1])), coq(T(cols[2])), coq(T(i["t"]))))


def coq_check(c, r):
    k = c["k"]
    if r.get("err") or r.get("panic"):
        return None
    if k == "c03.curve2":
        sp = r["sp"]
        return "check_curve2 %s %s %s %s %s %s %s %s %s %s %s" % (
            coq(rig2(r["iso"])), coq([T(p) for p in c["pts"]]), coq(c["tol"]), coq(bool(c["closed"])),
            coq([T(p) for p in r["a"]["points"]]), coq([T(p) for p in r["b"]["points"]]), coq([T(p) for p in c["qs"]]), coq([T(p) for p in r["tq"]]),
            coq((T(c["qs"][0]), T(sp["n"]))), coq(T(sp["tp"])), coq(T(sp["tn"])))
    if k == "c03.curve3":
        return "check_curve3 %s %s %s %s %s %s %s" % (
            coq(rig3(r["iso"])), coq([T(p) for p in c["pts"]]), coq(c["tol"]), coq([T(p) for p in r["a"]["points"]]), coq([T(p) for p in r["b"]["points"]]),
            coq([T(p) for p in c["qs"]]), coq([T(p) for p in r["tq"]]))
    if k == "c03.geom3":
        pl, sp, cl, di = r["plane"], r["sp"], r["cloud"], r["dist"]
        da, db = (c["q"][0], c["q"][1]), (c["pts"][0][0], c["pts"][0][1])
        if math.dist(da, db) == 0:
            return None
        return "check_geom3 %s %s %s %s %s %s %s %s %s %s %s %s %s %s %s %s %s %s %s %s %s %s %s %s" % (
            coq(rig3(r["iso"])), coq(rig3(r["iso2"])), coq([T(p) for p in c["pts"]]), coq(T(c["q"])), coq(T(pl["n"])), coq(pl["d"]),
            coq(T(pl["tn"])), coq(pl["td"]), coq(T(r["tq"])), coq(T(sp["tp"])), coq(T(sp["tn"])),
            coq([T(p) for p in cl["pts"]]), coq([T(p) for p in cl["seq"]]), coq([T(p) for p in cl["comp"]]),
            coq([T(p) for p in cl["normals0"]]), coq([T(p) for p in cl["normals"]]),
            coq(T(da)), coq(T(db)), coq(T(di["dir2"])), coq(T(di["a3"])), coq(T(di["b3"])), coq(T(di["dir3"])), coq(di["v2"]), coq(di["v3"]))
    return None


# ------------------------------------------------------------------ metamorphic oracles

def near(a, b, tol):
    return all(abs(x - y) <= tol for x, y in zip(a, b))


def oracle(c, r):
    k = c["k"]
    if r.get("err"):
        return
    if r.get("panic"):
        yield ("transform-panic", "transformed_by panicked on a curve of %d vertices" % len(c["pts"]))
        return
    if k in ("c03.curve2", "c03.curve3"):
        a, b, iso = r["a"], r["b"], r["iso"]
        dim = 2 if k.endswith("2") else 3
        tmag = max(abs(x) for x in iso["t"])
        scale = max(c["scale"], 1e-12)
        tol = 1e-9 * (scale * 10 + tmag)
        if dim == 2:
            ap = lambda p: [iso["c"] * p[0] - iso["s"] * p[1] + iso["t"][0], iso["s"] * p[0] + iso["c"] * p[1] + iso["t"][1]]
            rot = lambda v: [iso["c"] * v[0] - iso["s"] * v[1], iso["s"] * v[0] + iso["c"] * v[1]]
            if abs(iso["c"] ** 2 + iso["s"] ** 2 - 1) > 1e-12:
                yield ("iso-not-rigid", "Iso2 matrix is not a rotation: c^2+s^2 = %r" % (iso["c"] ** 2 + iso["s"] ** 2))
        else:
            rows = [iso["r0"], iso["r1"], iso["r2"]]
            ap = lambda p: [sum(rows[i][j] * p[j] for j in range(3)) + iso["t"][i] for i in range(3)]
            rot = lambda v: [sum(rows[i][j] * v[j] for j in range(3)) for i in range(3)]
            for i in range(3):
                for j in range(3):
                    d = sum(rows[i][m] * rows[j][m] for m in range(3))
                    if abs(d - (1.0 if i == j else 0.0)) > 1e-12:
                        yield ("iso-not-rigid", "Iso3 matrix rows %d,%d have dot %r" % (i, j, d))
                        return
        what = "%dD curve of %d vertices under %r" % (dim, len(a["points"]), c["iso"])
        # the transformed curve is the same entity in the new frame: same vertex tolerance, and T then its inverse restores it
        if b.get("tol") != a.get("tol") or r.get("back_tol") != a.get("tol"):
            yield ("tolerance-kept", what + ": vertex tolerance %r became %r (and %r after transforming back)" % (a.get("tol"), b.get("tol"), r.get("back_tol")))
        if abs(a["length"] - b["length"]) > 1e-9 * max(a["length"], 1e-12) + 1e-12 * tmag:
            yield ("length-invariant", what + ": length %r became %r" % (a["length"], b["length"]))
        if len(a["points"]) != len(b["points"]):
            yield ("vertices-equivariant", what + ": %d vertices became %d" % (len(a["points"]), len(b["points"])))
            return
        for p, q in zip(a["points"], b["points"]):
            if not near(ap(p), q, tol):
                yield ("vertices-equivariant", what + ": vertex %r maps to %r, transformed curve has %r" % (p, ap(p), q))
                return
        if dim == 2 and a["closed"] != b["closed"]:
            yield ("closed-invariant", what + ": closedness changed")
        for f, sa, sb in zip(c["fs"], a["at"], b["at"]):
            if (sa is None) != (sb is None):
                # the end of the curve: f * length may round differently in the two frames
                if f in (0.0, 1.0) or abs(a["length"] - b["length"]) > 0:
                    continue
                yield ("station-equivariant", what + ": station at fraction %r exists in one frame only" % f)
                continue
            if sa is None:
                continue
            if not near(ap(sa["p"]), sb["p"], tol + 1e-9 * a["length"]):
                yield ("station-equivariant", what + ": point at fraction %r: %r maps to %r, transformed curve gives %r" % (f, sa["p"], ap(sa["p"]), sb["p"]))
                break
            # directions only rotate (away from vertices, where the direction is one-sided or averaged consistently)
            if not near(rot(sa["d"]), sb["d"], 1e-6):
                lens = [0.0]
                for p0, p1 in zip(a["points"], a["points"][1:]):
                    lens.append(lens[-1] + math.dist(p0, p1))
                if min(abs(f * a["length"] - l) for l in lens) > 1e-7 * a["length"]:
                    yield ("direction-equivariant", what + ": direction at fraction %r: %r rotates to %r, transformed curve gives %r" % (f, sa["d"], rot(sa["d"]), sb["d"]))
                    break
        for q, ca, cb in zip(c["qs"], a["closest"], b["closest"]):
            if abs(ca["dist"] - cb["dist"]) > tol:
                yield ("distance-invariant", what + ": distance from %r is %r, after the motion %r" % (q, ca["dist"], cb["dist"]))
                break
            # closest points commute unless the minimiser is not unique (then only the distance is determined)
            if not near(ap(ca["p"]), cb["p"], 1e-6 * scale + tol):
                dq = math.dist(ap(q), cb["p"])
                if abs(dq - ca["dist"]) > tol:
                    yield ("closest-equivariant", what + ": closest point to %r is %r (-> %r), after the motion %r at a different distance" % (q, ca["p"], ap(ca["p"]), cb["p"]))
                    break
        for p, q in zip(a["points"], r["back"]):
            if not near(p, q, tol):
                yield ("transform-inverse", what + ": transforming back gives %r for vertex %r" % (q, p))
                break
        if dim == 2:
            sp = r["sp"]
            if abs(sp["proj"] - sp["tproj"]) > tol or abs(sp["planar"] - sp["tplanar"]) > tol:
                yield ("projection-invariant", what + ": scalar projection %r -> %r, planar distance %r -> %r" % (sp["proj"], sp["tproj"], sp["planar"], sp["tplanar"]))
            if not near(rot(sp["n"]), sp["tn"], 1e-12) or not near(ap(c["qs"][0]), sp["tp"], tol):
                yield ("surface-point-equivariant", what + ": surface point (%r, %r) became (%r, %r)" % (c["qs"][0], sp["n"], sp["tp"], sp["tn"]))
            if r["seg"] is not None and not (near(ap(c["qs"][0]), r["seg"][0], tol) and near(ap(c["qs"][1]), r["seg"][1], tol)):
                yield ("segment-equivariant", what + ": segment ends %r" % (r["seg"],))
    elif k == "c03.geom3":
        iso = r["iso"]
        rows = [iso["r0"], iso["r1"], iso["r2"]]
        ap = lambda p: [sum(rows[i][j] * p[j] for j in range(3)) + iso["t"][i] for i in range(3)]
        rot = lambda v: [sum(rows[i][j] * v[j] for j in range(3)) for i in range(3)]
        tmag = max(abs(x) for x in iso["t"])
        tol = 1e-9 * (10 + tmag)
        pl, sp, cl, me, di = r["plane"], r["sp"], r["cloud"], r["mesh"], r["dist"]
        what = "under %r" % (c["iso"],)
        if abs(pl["signed"] - pl["tsigned"]) > tol:
            yield ("plane-distance-invariant", what + ": signed distance %r became %r" % (pl["signed"], pl["tsigned"]))
        if not near(rot(pl["n"]), pl["tn"], 1e-9) or not near(ap(pl["proj"]), pl["tproj"], tol):
            yield ("plane-equivariant", what + ": plane normal %r -> %r, projection %r -> %r" % (pl["n"], pl["tn"], pl["proj"], pl["tproj"]))
        if abs(sp["proj"] - sp["tproj"]) > tol or abs(sp["planar"] - sp["tplanar"]) > tol:
            yield ("projection-invariant", what + ": scalar projection %r -> %r, planar distance %r -> %r" % (sp["proj"], sp["tproj"], sp["planar"], sp["tplanar"]))
        if not near(rot(sp["n"]), sp["tn"], 1e-12):
            yield ("surface-point-equivariant", what + ": normal %r became %r (normals only rotate)" % (sp["n"], sp["tn"]))
        for p, q, v in zip(c["pts"], cl["pts"], cl["vec"]):
            if not near(ap(p), q, tol) or not near(q, v, 0.0):
                yield ("cloud-equivariant", what + ": point %r became %r / %r" % (p, q, v))
                break
        for n0, n1 in zip(cl["normals0"], cl["normals"]):
            if not near(rot(n0), n1, 1e-12):
                yield ("cloud-equivariant", what + ": cloud normal %r became %r (normals only rotate)" % (n0, n1))
                break
        for p, q in zip(c["pts"], cl["back"]):
            if not near(p, q, tol):
                yield ("transform-inverse", what + ": inverse gives %r for %r" % (q, p))
                break
        t2 = max(abs(x) for x in r["iso2"]["t"])
        for p, q in zip(cl["seq"], cl["comp"]):
            if not near(p, q, 1e-9 * (10 + tmag + t2)):
                yield ("transform-compose", what + ": sequence %r vs composition %r" % (p, q))
                break
        d0 = math.dist(c["q"], me["p0"])
        d1 = math.dist(r["tq"], me["p1"])
        if abs(d0 - d1) > tol:
            yield ("mesh-distance-invariant", what + ": distance to the box %r became %r" % (d0, d1))
        # UV coordinates and depth of a point over a mapped plate: the same for the point handed over in another frame with the
        # transform into the mesh frame, and for the whole scene moved
        uv = r.get("uv")
        if uv:
            d = uv["direct"]
            for name in ("via", "moved", "moved_via"):
                o = uv[name]
                if (d is None) != (o is None):
                    # exactly level with the plate beyond its rim the offset is at the angle limit: either answer
                    if abs(c["q"][2]) > 1e-9:
                        yield ("uv-frame", what + ": uv_with_tol(%r) in the mesh frame gives %r, %s gives %r" % (c["q"], d, name, o))
                elif d is not None and (not near(d[0], o[0], tol) or abs(d[1] - o[1]) > tol):
                    yield ("uv-frame", what + ": uv_with_tol(%r) in the mesh frame gives %r, %s gives %r" % (c["q"], d, name, o))
        if not near(rot(list(di["dir2"]) + [0.0]), di["dir3"], 1e-12):
            yield ("distance-2d-3d", what + ": measuring direction %r became %r (directions only rotate)" % (di["dir2"], di["dir3"]))
        if abs(di["v2"] - di["v3"]) > tol or abs(di["v2"] - di["v2b"]) > tol:
            yield ("distance-2d-3d", what + ": 2D distance %r, lifted %r, dropped back %r" % (di["v2"], di["v3"], di["v2b"]))
