"""C05  Resampling, simplifying and gap filling stay on the curve and cover it all."""
import math
import common as C
from common import Some, Nat, Raw, opt, coq

LEVEL = "proof"
COQ_IMPORTS = ["Tie.C05"]
RULE = ("2D and 3D curves, open and closed, total length from 1e-3 to 1e3 with uneven vertex density; resampling by count "
        "(2..200), by spacing and by maximum spacing (incl. spacing larger than the curve and exact divisors of its length); "
        "simplification tolerances from below the smallest feature to above the largest, on open and closed curves, incl. "
        "vertices beyond the end of a chord; gap filling with maxima below, at and above the gaps. distinct = distinct (tag, input)")
TRUSTED_BASE = [
    "Coq 8.16.1 kernel and vm_compute",
    "hand-written models coq/Model/Resample.v on top of coq/Model/Curve.v (C01), tied by differential correspondence Tie/C05.v",
    "harness/src/c05.rs, generators and oracles in tools/props/c05.py",
]
ASSUMPTIONS = [
    "theorems over exact reals; ceil(L/max) is taken from the implementation's length when the model is executed",
    "counts >= 2 (a single sample has no spacing); on a closed curve two samples coincide and a spacing >= the length gives a single sample: no curve exists and rejection (Err; a panic from Curve3::resample, which has no error channel) is accepted there",
]


def rnd_curve(rng, dim, closed=False, dup=False):
    n = rng.choice([2, 3, 4, 6, 10, 25])
    scale = rng.choice([1e-3, 0.1, 1.0, 1.0, 10.0, 200.0])
    if closed and dim == 2:
        n = max(n, 4)
        pts = []
        for i in range(n):
            a = 2 * math.pi * i / n
            rr = scale * rng.uniform(0.6, 1.2)
            pts.append([rr * math.cos(a) + 3 * scale, rr * math.sin(a) - scale])
        return pts
    pts = [[rng.uniform(-1, 1) * scale for _ in range(dim)]]
    for _ in range(n - 1):
        step = scale * rng.choice([0.01, 0.3, 1.0, 1.0])
        pts.append([a + rng.uniform(-1, 1) * step + (step if j == 0 else 0) for j, a in enumerate(pts[-1])])
    if dup and rng.random() < 0.3:
        # a point given twice in a row (two runs joined at their shared end, a section chain): the curve is the same curve
        i = rng.randrange(len(pts))
        pts.insert(i, list(pts[i]))
    return pts


def length_of(pts):
    return sum(math.dist(a, b) for a, b in zip(pts, pts[1:]))


def gen_curve(rng, dim):
    closed = dim == 2 and rng.random() < 0.4
    pts = rnd_curve(rng, dim, closed, dup=True)
    L = length_of(pts) + (math.dist(pts[0], pts[-1]) if closed else 0.0)
    r = rng.random()
    if r < 0.4:
        mode = {"mode": "count", "n": rng.choice([2, 3, 5, 8, 17, 40, rng.randint(2, 200), rng.randint(2, 200)])}
    elif r < 0.7:
        mode = {"mode": "spacing", "s": L * rng.choice([0.03, 0.1, 0.25, 0.5, 0.34, 1.5])}
    else:
        mode = {"mode": "max", "s": L * rng.choice([0.05, 0.1, 0.2, 0.25, 0.5, 1.0, 2.0, 0.37, 1.0 / rng.randint(3, 150)])}
    e = length_of(pts) / len(pts) * rng.choice([0.001, 0.05, 0.3, 1.0, 5.0])
    c = {"k": "c05.curve%d" % dim, "pts": pts, "tol": min(1e-6, L * 1e-6), "e": e}
    if dim == 2:
        c["closed"] = closed
    c.update(mode)
    return c


def gen_rdp(rng):
    r = rng.random()
    if r < 0.3:
        # a vertex beyond the end of the chord
        pts = [[0.0, 0.0], [rng.uniform(2, 6), rng.uniform(0, 0.002)], [1.0, 0.0]]
        e = 0.01
    else:
        pts = rnd_curve(rng, 2)
        e = length_of(pts) / len(pts) * rng.choice([0.01, 0.2, 1.0])
    return {"k": "c05.rdp", "pts": pts, "e": e}


def gen_fill(rng):
    pts = rnd_curve(rng, 2)
    gaps = [math.dist(a, b) for a, b in zip(pts, pts[1:])] or [1.0]
    maxd = rng.choice([min(gaps) * 0.3, max(gaps) * 0.49, max(gaps) * 0.5, max(gaps), max(gaps) * 2, sum(gaps) / len(gaps)])
    return {"k": "c05.fill", "pts": pts, "maxd": max(maxd, 1e-9)}


def gen_sweep(rng):
    """many counts on one open curve: the request/positions relation depends on (length, count) pairs"""
    dim = rng.choice([2, 3])
    pts = rnd_curve(rng, dim)
    if rng.random() < 0.4:       # plain lengths such as 0.7, 3, 10
        L = rng.choice([0.7, 3.0, 10.0, 0.3, 7.0])
        pts = [[0.0] * dim, [L] + [0.0] * (dim - 1)]
    counts = sorted(set(rng.randint(2, 260) for _ in range(60)))
    return {"k": "c05.sweep", "dim": dim, "pts": pts, "tol": 1e-9 * max(length_of(pts), 1e-9), "counts": counts, "max": rng.random() < 0.3}


def corpus():
    # D1: length-7 and length-0.7 curves by count; D2: exact divisor; D3/D4: closed curve and beyond-the-end vertex
    yield {"k": "c05.curve2", "pts": [[0.0, 0.0], [7.0, 0.0]], "tol": 1e-6, "closed": False, "mode": "count", "n": 8, "e": 0.01}
    yield {"k": "c05.curve2", "pts": [[0.0, 0.0], [0.7, 0.0]], "tol": 1e-6, "closed": False, "mode": "count", "n": 5, "e": 0.01}
    yield {"k": "c05.curve2", "pts": [[0.0, 0.0], [4.0, 0.0]], "tol": 1e-6, "closed": False, "mode": "max", "s": 1.0, "e": 0.01}
    yield {"k": "c05.curve2", "pts": [[0.0, 0.0], [1.0, 0.0], [1.0, 1.0], [0.0, 1.0]], "tol": 1e-6, "closed": True, "mode": "max", "s": 5.0, "e": 0.01}
    yield {"k": "c05.rdp", "pts": [[0.0, 0.0], [5.0, 0.001], [1.0, 0.0]], "e": 0.01}


def generate(rng, tier):
    n = 100 if tier == "quick" else 1500
    out = []
    for _ in range(n):
        out += [gen_curve(rng, 2), gen_curve(rng, 3), gen_rdp(rng), gen_fill(rng)]
    for _ in range(n // 4):
        out.append(gen_sweep(rng))
    return out


def tag(c, r):
    k = c["k"]
    if r.get("err"):
        return k + ":rejected"
    if k in ("c05.curve2", "c05.curve3"):
        rs = r["resampled"]
        st = "panic" if rs.get("panic") else ("err" if rs.get("err") else "ok")
        return "%s:%s:%s:%s" % (k, c["mode"], "closed" if c.get("closed") else "open", st)
    return k


def T(p):
    return tuple(float(x) for x in p)


def mode_args(c, r):
    L = r["src"]["length"]
    if c["mode"] == "count":
        return 0, c["n"], 0.0
    if c["mode"] == "max":
        return 0, int(math.ceil(L / c["s"])) + 1, 0.0
    return 1, int(L / c["s"]) + 10, c["s"]


def rtag_pts(v):
    if v.get("panic"):
        return 2, []
    if v.get("err"):
        return 1, []
    return 0, [T(p) for p in v["points"]]


def coq_check(c, r):
    k = c["k"]
    if r.get("err"):
        return None
    if k in ("c05.curve2", "c05.curve3"):
        mode, n, s = mode_args(c, r)
        if n > 4000:
            return None
        rt, rp = rtag_pts(r["resampled"])
        st, sp = rtag_pts(r["simplified"])
        pts = [T(p) for p in c["pts"]]
        if k == "c05.curve2":
            a = "check_resample2 %s %s %s %s %s %s %s %s" % (coq(pts), coq(c["tol"]), coq(bool(c["closed"])), coq(mode), coq(n), coq(s), coq(rt), coq(rp))
            b = "check_simplify2 %s %s %s %s %s %s" % (coq(pts), coq(c["tol"]), coq(bool(c["closed"])), coq(c["e"]), coq(st), coq(sp))
        else:
            a = "check_resample3 %s %s %s %s %s %s %s" % (coq(pts), coq(c["tol"]), coq(mode), coq(n), coq(s), coq(rt), coq(rp))
            b = "check_simplify3 %s %s %s %s %s" % (coq(pts), coq(c["tol"]), coq(c["e"]), coq(st), coq(sp))
        return "(let a := %s in if Z.eqb a 0%%Z then (let b := %s in if Z.eqb b 0%%Z then 0%%Z else Z.add 50%%Z b) else a)" % (a, b)
    if k == "c05.rdp":
        return "check_rdp %s %s %s" % (coq([T(p) for p in c["pts"]]), coq(c["e"]), coq([T(p) for p in r["points"]]))
    if k == "c05.fill":
        gaps = [math.dist(a, b) for a, b in zip(c["pts"], c["pts"][1:])] or [0.0]
        fuel = int(max(gaps) / c["maxd"]) + 10
        if fuel > 3000:
            return None
        return "check_fill %s %s %s %s" % (coq([T(p) for p in c["pts"]]), coq(c["maxd"]), coq(fuel), coq([T(p) for p in r["points"]]))
    return None


# ------------------------------------------------------------------ oracles

def seg_dist(p, a, b):
    v = [y - x for x, y in zip(a, b)]
    w = [y - x for x, y in zip(a, p)]
    vv = sum(x * x for x in v)
    t = 0.0 if vv == 0 else max(0.0, min(1.0, sum(x * y for x, y in zip(v, w)) / vv))
    q = [x + t * y for x, y in zip(a, v)]
    return math.dist(p, q)


def dist_to_poly(p, pts):
    return min(seg_dist(p, a, b) for a, b in zip(pts, pts[1:])) if len(pts) > 1 else math.dist(p, pts[0])


def oracle(c, r):
    k = c["k"]
    if r.get("err"):
        return
    if k in ("c05.curve2", "c05.curve3"):
        src = r["src"]["points"]
        L = r["src"]["length"]
        scale = max(L, 1e-12)
        rs = r["resampled"]
        name = "%s %s" % (k[4:], c["mode"])
        n_req = c.get("n", 2)
        if rs.get("panic") or rs.get("err"):
            # a closed curve sampled at fewer than three positions has a single distinct point (0 and L coincide):
            # no curve exists, Err is the answer (the model agrees through the correspondence)
            degenerate = c.get("closed") and mode_args(c, r)[0] == 0 and mode_args(c, r)[1] < 3
            if c["mode"] == "spacing" and c["s"] >= L:
                degenerate = True   # a single sample: no curve exists (Curve2 returns Err, Curve3::resample has no error channel and panics)
            if not degenerate or (rs.get("panic") and k == "c05.curve2"):
                yield ("resample-failed", "resample(%s %r) %s on a curve of length %r" % (c["mode"], c.get("n", c.get("s")), "panicked" if rs.get("panic") else "returned an error", L))
        else:
            pts = rs["points"]
            for p in pts:
                if dist_to_poly(p, src) > 1e-9 * scale:
                    yield ("resample-on-curve", "%s: resampled vertex %r is %r away from the curve" % (name, p, dist_to_poly(p, src)))
                    break
            closed = c.get("closed", False) and r["src"].get("closed", False)
            if c["mode"] in ("count", "max"):
                if math.dist(pts[0], src[0]) > 1e-9 * scale or math.dist(pts[-1], src[-1]) > 1e-9 * scale:
                    yield ("resample-span", "%s: result runs from %r to %r, the curve from %r to %r" % (name, pts[0], pts[-1], src[0], src[-1]))
            if c["mode"] == "count" and len(pts) != n_req and not closed:
                # tolerance de-duplication may merge samples closer than tol; with tol = 1e-6*L that needs > 1e6 samples
                yield ("resample-count", "%s: %d vertices for a request of %d" % (name, len(pts), n_req))
            if c["mode"] == "max":
                gaps = [math.dist(a, b) for a, b in zip(pts, pts[1:])]
                if gaps and max(gaps) > c["s"] * (1 + 1e-9):
                    yield ("resample-max-spacing", "%s: consecutive vertices %r apart, maximum requested %r" % (name, max(gaps), c["s"]))
            if c["mode"] == "spacing" and c["s"] < L:
                # equal margins smaller than one spacing, measured along the curve (lengths of the source)
                lens = r["src"]["lengths"]
                def arclen(p):
                    best, bl = None, 0.0
                    for i, (a, b) in enumerate(zip(src, src[1:])):
                        d = seg_dist(p, a, b)
                        if best is None or d < best - 1e-12:
                            v = [y - x for x, y in zip(a, b)]
                            vv = sum(x * x for x in v)
                            t = 0.0 if vv == 0 else max(0.0, min(1.0, sum((y - x) * z for x, y, z in zip(a, p, v)) / vv))
                            best, bl = d, lens[i] + t * (lens[i + 1] - lens[i])
                    return bl
                if not closed and len(pts) >= 2:
                    m0, m1 = arclen(pts[0]), L - arclen(pts[-1])
                    if abs(m0 - m1) > 1e-6 * scale or m0 > c["s"] * (1 + 1e-9) or m0 < -1e-9:
                        yield ("resample-margins", "%s: margins %r and %r for spacing %r" % (name, m0, m1, c["s"]))
            if rs["length"] > L * (1 + 1e-9) + 1e-12:
                yield ("resample-longer", "%s: resampled length %r exceeds the original %r" % (name, rs["length"], L))
        sm = r["simplified"]
        e = c["e"]
        if sm.get("panic") and c.get("closed") and all(math.dist(p, src[0]) <= e for p in src):
            # every vertex within e of the first: RDP keeps only the coincident first/last vertex
            yield ("simplify-closed-collapse", "Curve2::simplify(%r) panics on a closed curve whose vertices are all within the tolerance of its first vertex (%d vertices)" % (e, len(src)))
        elif sm.get("panic"):
            yield ("simplify-panic", "simplify(%r) panicked on a %s curve of %d vertices" % (e, "closed" if c.get("closed") else "open", len(src)))
        else:
            sp = sm["points"]
            if math.dist(sp[0], src[0]) > 0 or math.dist(sp[-1], src[-1]) > 0:
                yield ("simplify-ends", "simplify(%r) moved an end point: %r..%r vs %r..%r" % (e, sp[0], sp[-1], src[0], src[-1]))
            j = 0
            for p in sp:
                while j < len(src) and src[j] != p:
                    j += 1
                if j == len(src):
                    yield ("simplify-subsequence", "simplify(%r) returned a vertex %r that is not an original vertex in order" % (e, p))
                    break
                j += 1
            else:
                for p in src:
                    if dist_to_poly(p, sp) > e * (1 + 1e-9) + 1e-12:
                        yield ("simplify-within", "simplify(%r): original vertex %r is %r from the simplified curve" % (e, p, dist_to_poly(p, sp)))
                        break
            if k == "c05.curve2" and sm.get("closed") != r["src"]["closed"]:
                yield ("simplify-closed", "simplify changed closedness")
    elif k == "c05.sweep":
        first, last, L = r["first"], r["last"], r["length"]
        for n, o in zip(c["counts"], r["out"]):
            what = "resample(%s) of a %dD curve of length %r" % ("ByMaxSpacing(L/%d)" % n if c["max"] else "ByCount(%d)" % n, c["dim"], L)
            if o.get("panic") or o.get("err"):
                yield ("resample-failed", what + (" panicked" if o.get("panic") else " returned an error"))
                break
            want = n + 1 if c["max"] else n
            # ByMaxSpacing(L/n): ceil(L/(L/n)) may round to n or n+1 intervals; both satisfy the request
            ok_counts = (want, want + 1) if c["max"] else (want,)
            if o["n"] not in ok_counts:
                yield ("resample-count", what + ": %d vertices" % o["n"])
                break
            if math.dist(o["first"], first) > 1e-9 * L or math.dist(o["last"], last) > 1e-9 * L:
                yield ("resample-span", what + ": result runs from %r to %r, the curve from %r to %r" % (o["first"], o["last"], first, last))
                break
            if o["length"] > L * (1 + 1e-9):
                yield ("resample-longer", what + ": length %r" % o["length"])
                break
    elif k == "c05.rdp":
        src, sp, e = c["pts"], r["points"], c["e"]
        if sp[0] != src[0] or sp[-1] != src[-1]:
            yield ("rdp-ends", "RDP dropped an end point")
        for p in src:
            if dist_to_poly(p, sp) > e * (1 + 1e-9):
                yield ("rdp-within", "RDP(%r): vertex %r is %r from the simplified polyline %r" % (e, p, dist_to_poly(p, sp), sp))
                break
    elif k == "c05.fill":
        src, out, m = c["pts"], r["points"], c["maxd"]
        j = 0
        for p in out:
            if j < len(src) and p == src[j]:
                j += 1
        if j != len(src):
            yield ("fill-original", "fill_gaps lost or reordered an original point")
        gaps = [math.dist(a, b) for a, b in zip(out, out[1:])]
        if gaps and max(gaps) > m * (1 + 1e-9):
            yield ("fill-gap", "fill_gaps(%r) left a gap of %r" % (m, max(gaps)))
        for p in out:
            if dist_to_poly(p, src) > 1e-9 * max(1.0, max(abs(x) for x in p)):
                yield ("fill-on-polyline", "inserted point %r is off the polyline" % (p,))
                break
