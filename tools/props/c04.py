"""C04  Curve portions, splits, trims and reversal conserve length and endpoints."""
import math
import common as C
from common import Some, Nat, Raw, opt, coq
from props import c01

LEVEL = "proof"
COQ_IMPORTS = ["Tie.C04"]
RULE = ("open, naturally closed and force-closed 2D curves with uneven edges (C01's generator: collinear runs, near-duplicates, revisited "
        "vertices); (l0, l1[, control]) drawn from 0, L, stored vertex lengths +-1 ulp, interior points of edges, the last edge, values "
        "about one tolerance apart, reversed pairs, out-of-range values; chains of 1-4 portionings. distinct = distinct (tag, input)")
TRUSTED_BASE = [
    "Coq 8.16.1 kernel and vm_compute",
    "hand-written model coq/Model/Portion.v on top of coq/Model/Curve.v (C01), tied by differential correspondence Tie/C04.v",
    "harness/src/c04.rs, generators and oracles in tools/props/c04.py",
]
ASSUMPTIONS = [
    "theorems over exact reals about the raw point list handed to from_points; the effect of its tolerance de-duplication on the final length is bounded per case by the oracle (3 tolerances), not proved",
    "a well-posed request whose arc-length span is below three tolerances may be answered with None (the piece collapses under de-duplication)",
]


def lq(rng, n):
    r = rng.random()
    if r < 0.3:
        return {"kind": "vertex", "k": rng.randrange(n + 1), "ulp": rng.choice([0, 0, 1, -1])}
    if r < 0.6:
        return {"kind": "edge", "k": rng.randrange(n + 1), "f": rng.choice([rng.random(), rng.random(), 0.5, 1e-9, 1 - 1e-9])}
    if r < 0.7:
        return {"kind": "frac", "f": rng.choice([0.0, 1.0])}
    if r < 0.75:
        return {"kind": "abs", "l": rng.choice([-1e-9, -1.0, 1e9, -0.0, -0.0])}      # negative zero is zero: the start of the curve
    return {"kind": "frac", "f": rng.random()}


def gen_portion(rng):
    pts = c01.rnd_pts(rng, 2)
    n = len(pts)
    l0, l1 = lq(rng, n), lq(rng, n)
    if rng.random() < 0.1:      # about one tolerance apart
        l1 = dict(l0)
        l1 = {"kind": "edge", "k": rng.randrange(n), "f": 0.3}
        l0 = {"kind": "edge", "k": l1["k"], "f": 0.3 + rng.choice([1e-7, 1e-6, 3e-6, 1e-5])}
    return {"k": "c04.portion", "pts": pts, "tol": rng.choice([1e-6, 1e-6, 1e-3]), "closed": rng.random() < 0.4,
            "l0": l0, "l1": l1, "control": lq(rng, n), "probes": [rng.random() for _ in range(4)] + [0.0, 1.0],
            "frac": rng.choice([0.25, 0.4, 0.4, 0.6, 0.9])}


def gen_chain(rng):
    pts = c01.rnd_pts(rng, 2)
    steps = []
    for _ in range(rng.randint(1, 4)):
        a, b = sorted([rng.random(), rng.random()])
        if rng.random() < 0.2:
            a, b = b, a
        steps.append([{"kind": "frac", "f": a}, {"kind": "frac", "f": b}])
    return {"k": "c04.chain", "pts": pts, "tol": 1e-6, "closed": rng.random() < 0.4, "steps": steps}


def corpus():
    sq = [[0.0, 0.0], [1.0, 0.0], [1.0, 1.0], [0.0, 1.0]]
    yield {"k": "c04.portion", "pts": sq, "tol": 1e-6, "closed": True, "l0": {"kind": "abs", "l": 3.5}, "l1": {"kind": "abs", "l": 0.5},
           "control": {"kind": "abs", "l": 3.9}, "probes": [0.1, 0.6]}
    yield {"k": "c04.portion", "pts": sq, "tol": 1e-6, "closed": False, "l0": {"kind": "abs", "l": 0.5}, "l1": {"kind": "abs", "l": 2.5},
           "control": {"kind": "abs", "l": 1.0}, "probes": [0.1, 0.6]}
    yield {"k": "c04.portion", "pts": sq, "tol": 1e-6, "closed": False, "l0": {"kind": "abs", "l": 2.5}, "l1": {"kind": "abs", "l": 0.5},
           "control": {"kind": "abs", "l": 1.0}, "probes": [0.1, 0.6]}


def generate(rng, tier):
    n = 200 if tier == "quick" else 3000
    return [gen_portion(rng) for _ in range(n)] + [gen_chain(rng) for _ in range(n // 4)]


def tag(c, r):
    k = c["k"]
    if r.get("err"):
        return k + ":rejected"
    if k == "c04.portion":
        return "%s:%s:%s:%s:%s" % (k, "closed" if r["src"]["closed"] else "open", c["l0"]["kind"], c["l1"]["kind"], "some" if r["between"] else "none")
    return "%s:%d" % (k, len(r["steps"]))


def T(p):
    return tuple(float(x) for x in p)


def opts(v):
    return opt(None if v is None else [T(p) for p in v["points"]])


def coq_check(c, r):
    k = c["k"]
    if r.get("err"):
        return None
    pts = [T(p) for p in c["pts"]]
    if k == "c04.portion":
        def pr(v):
            if isinstance(v, dict) and v.get("err"):
                return opt(None)
            return opt(([T(p) for p in v[0]["points"]], [T(p) for p in v[1]["points"]]))
        rev = r["reversed"]
        term = "check_portion %s %s %s %s %s %s %s %s %s %s %s %s %s" % (
            coq(pts), coq(c["tol"]), coq(bool(c["closed"])), coq(r["l0"]), coq(r["l1"]), coq(r["lc"]),
            coq(opts(r["between"])), coq(opts(r["control"])), coq(opts(r["trim_front"])), coq(opts(r["trim_back"])),
            coq(pr(r["split"])), coq(pr(r["split_wrong"])), coq(opt(None if rev.get("panic") else [T(p) for p in rev["curve"]["points"]])))
        es = r.get("edge_sub")
        if es and not any(isinstance(es[n], dict) and es[n].get("panic") for n in ("fwd", "rev")):
            # the model of the edge extraction, run on the arc lengths the implementation found for the two ray ends
            one = lambda a, b, v: "check_edge_sub %s %s %s %s %s %s %s" % (coq(pts), coq(c["tol"]), coq(bool(c["closed"])), coq(a), coq(b), coq(es["frac"]), coq(opts(v)))
            term = "both (%s) (both (%s) (%s))" % (term, one(es["la"], es["lb"], es["fwd"]), one(es["ra"], es["rb"], es["rev"]))
        return term
    if k == "c04.chain":
        steps = [(s["l0"], s["l1"], opts(s["out"])) for s in r["steps"]]
        return "check_chain %s %s %s %s" % (coq(pts), coq(c["tol"]), coq(bool(c["closed"])), coq(steps))
    return None


# ------------------------------------------------------------------ oracles

def seg_dist(p, a, b):
    v = [y - x for x, y in zip(a, b)]
    w = [y - x for x, y in zip(a, p)]
    vv = sum(x * x for x in v)
    t = 0.0 if vv == 0 else max(0.0, min(1.0, sum(x * y for x, y in zip(v, w)) / vv))
    return math.dist(p, [x + t * y for x, y in zip(a, v)])


def dist_poly(p, pts):
    return min(seg_dist(p, a, b) for a, b in zip(pts, pts[1:]))


def span_of(l0, l1, L, closed):
    return l1 - l0 if l1 >= l0 else (L - (l0 - l1) if closed else None)


def piece_oracle(name, piece, src, l0, l1, p0, p1, tol, what):
    """piece: the implementation's answer (dict or None) to the portion of src from arc length l0 (point p0) to l1 (point p1)"""
    L, closed = src["length"], src["closed"]
    scale = max(1.0, max(abs(x) for p in src["points"] for x in p))
    in_range = 0 <= l0 <= L and 0 <= l1 <= L
    sp = span_of(l0, l1, L, closed) if in_range else None
    if piece is None:
        if sp is not None and abs(l1 - l0) >= tol and sp > 3 * tol + 1e-12 * scale:
            yield (name + "-missing", "%s: well-posed request (span %r of %r, %s) yields nothing" % (what, sp, L, "closed" if closed else "open"))
        return
    if sp is None or abs(l1 - l0) < tol:
        yield (name + "-ill-posed", "%s: ill-posed request answered with a piece of length %r" % (what, piece["length"]))
        return
    pts = piece["points"]
    if math.dist(pts[0], p0) > tol + 1e-9 * scale or math.dist(pts[-1], p1) > tol + 1e-9 * scale:
        yield (name + "-ends", "%s: piece runs %r..%r, expected %r..%r" % (what, pts[0], pts[-1], p0, p1))
    if abs(piece["length"] - sp) > 3 * tol + 1e-9 * max(L, 1.0):
        yield (name + "-length", "%s: piece length %r, arc-length span %r" % (what, piece["length"], sp))
    for p in pts:
        if dist_poly(p, src["points"]) > 1e-9 * scale:
            yield (name + "-on-curve", "%s: vertex %r is %r off the source curve" % (what, p, dist_poly(p, src["points"])))
            break
    # interior vertices are source vertices in source order (cyclic when wrapping)
    sv = [tuple(p) for p in src["points"]]
    idx = []
    for p in pts[1:-1]:
        if tuple(p) in sv:
            idx.append(sv.index(tuple(p)))
    dec = sum(1 for a, b in zip(idx, idx[1:]) if b < a)
    if dec > (1 if l1 < l0 else 0) and len(set(sv)) == len(sv):
        yield (name + "-order", "%s: interior vertices visit source indices %r" % (what, idx))


def oracle(c, r):
    k = c["k"]
    if r.get("err"):
        return
    if r.get("panic") and "src" not in r:
        yield ("portion-panic", "portioning a curve of %d points (tol %r, %s) at %r / %r / control %r panicked" % (len(c["pts"]), c["tol"], "closed" if c["closed"] else "open", c.get("l0"), c.get("l1"), c.get("control")))
        return
    if k == "c04.portion":
        src = r["src"]
        tol = c["tol"]
        L = src["length"]
        l0, l1, lc = r["l0"], r["l1"], r["lc"]
        p0 = r["s0"]["point"] if r["s0"] else None
        p1 = r["s1"]["point"] if r["s1"] else None
        what = "between_lengths(%r, %r) on a %s curve of length %r (%d vertices)" % (l0, l1, "closed" if src["closed"] else "open", L, len(src["points"]))
        if p0 is None or p1 is None:
            if r["between"] is not None:
                yield ("portion-ill-posed", what + ": out-of-range request answered")
        else:
            yield from piece_oracle("portion", r["between"], src, l0, l1, p0, p1, tol, what)
        scale = max(1.0, max(abs(x) for p in src["points"] for x in p))
        # control variant: the piece must contain the control position
        cp = r["control"]
        if cp is not None and p0 is not None and p1 is not None and 0 <= lc <= L:
            # point at lc from the probes is not available; use the arc-length rule instead
            lo, hi = min(l0, l1), max(l0, l1)
            inside = lo < lc < hi
            want = hi - lo if inside else L - (hi - lo)
            if abs(cp["length"] - want) > 3 * tol + 1e-9 * max(L, 1.0):
                yield ("control-piece", "between_lengths_by_control(%r, %r, %r): piece of length %r, the piece containing the control has length %r" % (l0, l1, lc, cp["length"], want))
        if cp is not None and not (0 <= lc <= L):
            yield ("control-ill-posed", "control %r outside the curve answered" % lc)
        # trims
        tf, tb = r["trim_front"], r["trim_back"]
        if 0 <= l0 <= L:
            for name, t, ends in (("trim_front", tf, (p0, src["points"][-1])), ("trim_back", tb, (src["points"][0], None))):
                if t is None:
                    if L - l0 > 3 * tol + 1e-12 * scale and (name == "trim_front" or True) and not src["closed"]:
                        yield ("trim-missing", "%s(%r) on an open curve of length %r yields nothing" % (name, l0, L))
                    continue
                if abs(t["length"] - (L - l0)) > 3 * tol + 1e-9 * max(L, 1.0):
                    yield ("trim-length", "%s(%r): length %r, expected %r" % (name, l0, t["length"], L - l0))
                if ends[0] is not None and math.dist(t["points"][0], ends[0]) > tol + 1e-9 * scale:
                    yield ("trim-ends", "%s(%r) starts at %r, expected %r" % (name, l0, t["points"][0], ends[0]))
                if name == "trim_front" and math.dist(t["points"][-1], ends[1]) > tol + 1e-9 * scale:
                    yield ("trim-ends", "trim_front(%r) ends at %r, the curve at %r" % (l0, t["points"][-1], ends[1]))
        elif l0 < -1e-9 * max(L, 1.0) or l0 > L + 1e-9 * max(L, 1.0):
            # ill-posed: a trim amount below zero or beyond the length (by more than rounding: L - (-5e-324) is L) yields nothing
            for name, t in (("trim_front", tf), ("trim_back", tb)):
                if t is not None:
                    yield ("trim-ill-posed", "%s(%r) on a curve of length %r returned a curve of length %r; an out-of-range amount yields nothing" % (name, l0, L, t["length"]))
        # a consumer of the portions: the airfoil edge extraction keeps the piece between the two ends of a spanning ray that is
        # shorter than a fraction of the perimeter, whichever of the two orders is the well-posed one
        es = r.get("edge_sub")
        if es:
            fr = es["frac"]
            for name, (a, b) in (("fwd", (es["la"], es["lb"])), ("rev", (es["ra"], es["rb"]))):
                got = es[name]
                if isinstance(got, dict) and got.get("panic"):
                    yield ("edge-portion", "extract_edge_sub_curve panicked (ray ends at arc lengths %r and %r of %r)" % (a, b, L))
                    continue
                spans = [x for x in (span_of(a, b, L, src["closed"]), span_of(b, a, L, src["closed"]))]
                # leave out requests within rounding of a decision (a span near zero, near the fraction, or equal ends)
                if abs(a - b) < 10 * tol + 1e-9 * max(L, 1.0) or any(x is not None and (abs(x - fr * L) < 1e-6 * max(L, 1.0) or x < 10 * tol) for x in spans):
                    continue
                want = next((x for x in spans if x is not None and x < fr * L), None)
                what2 = "extract_edge_sub_curve on a %s curve of length %r, ray ends at arc lengths %r -> %r, fraction %r" % ("closed" if src["closed"] else "open", L, a, b, fr)
                if want is None and got is not None:
                    yield ("edge-portion", what2 + ": no portion is shorter than the fraction, yet one of length %r is returned" % got["length"])
                elif want is not None and got is None:
                    yield ("edge-portion", what2 + ": the portion of length %r is shorter than the fraction, nothing returned" % want)
                elif want is not None and abs(got["length"] - want) > 6 * tol + 1e-9 * max(L, 1.0):
                    yield ("edge-portion", what2 + ": returned length %r, the short portion has length %r" % (got["length"], want))
        # splits
        sp = r["split"]
        if isinstance(sp, list):
            a, b = sp
            if abs(a["length"] + b["length"] - L) > 6 * tol + 1e-9 * max(L, 1.0):
                yield ("split-sum", "split pieces %r + %r != %r" % (a["length"], b["length"], L))
            if math.dist(a["points"][-1], b["points"][0]) > 2 * tol + 1e-9 * scale:
                yield ("split-meet", "split pieces do not meet: %r vs %r" % (a["points"][-1], b["points"][0]))
            if src["closed"] and math.dist(b["points"][-1], a["points"][0]) > 2 * tol + 1e-9 * scale:
                yield ("split-meet", "closed split pieces do not close: %r vs %r" % (b["points"][-1], a["points"][0]))
        if isinstance(r["split_wrong"], list):
            yield ("split-wrong-kind", "split for the other closedness succeeded")
        # reversal
        rv = r["reversed"]
        if rv.get("panic"):
            yield ("reversed-panic", "reversed() panicked")
        else:
            if abs(rv["curve"]["length"] - L) > 1e-9 * max(L, 1.0) + 2 * tol:
                yield ("reversed-length", "reversed length %r vs %r" % (rv["curve"]["length"], L))
            for q, a, l in zip(r["probe_pts"], rv["at"], r["probe_ls"]):
                if q is None:
                    continue
                if a is None or math.dist(a, q) > 2 * tol + 1e-9 * scale:
                    # L - l may fall an ulp outside [0, L'] when the lengths differ by rounding
                    if a is None and (l < 1e-9 * L or L - l < 1e-9 * L):
                        continue
                    yield ("reversed-point", "point at %r is %r, reversed curve at L - l gives %r" % (l, q, a))
                    break
    elif k == "c04.chain":
        for i, s in enumerate(r["steps"]):
            out = s["out"]
            l0, l1, L = s["l0"], s["l1"], s["src_length"]
            sp = span_of(l0, l1, L, s["src_closed"])
            if out is None:
                if sp is not None and abs(l1 - l0) >= c["tol"] and sp > 3 * c["tol"]:
                    yield ("chain-missing", "step %d: well-posed request (%r, %r) of %r yields nothing" % (i, l0, l1, L))
                continue
            if sp is None:
                yield ("chain-ill-posed", "step %d: reversed request on an open curve answered" % i)
            elif abs(out["length"] - sp) > 3 * c["tol"] + 1e-9 * max(L, 1.0):
                yield ("chain-length", "step %d: piece length %r, span %r" % (i, out["length"], sp))
