"""C18  Angle normalisation and interval arithmetic are consistent."""
import math
import common as C
from common import Some, Nat, Raw, opt, coq

LEVEL = "proof"
COQ_IMPORTS = ["Tie.C18"]
RULE = ("boundary-value generators: angles at and one ulp around 0, +-pi, +-2pi, multiples of 2pi, tiny negatives, "
        "|a| up to 1e6; vector pairs incl. equal, opposite, perpendicular, scaled; (start, extent) pairs with negative and "
        "over-full extents and queries swept through the extent and just outside; bound pairs incl. equal, reversed, "
        "infinite and NaN. distinct = distinct (tag, input) pairs; 'trivial' never used here")
TRUSTED_BASE = [
    "Coq 8.16.1 kernel and vm_compute",
    "translator tools/rs2v.py: Gen/Angles.v, Gen/Interval.v, Gen/Angles2.v regenerated from /repo on this run and checked convertible with Model/Angles.v, Model/Interval.v by reflexivity (one obligation per function)",
    "differential tie Tie/C18.v + harness/src/c18.rs on boundary values (also covers the translator itself)",
    "FNum fmod (exact, Gallina) and atan2 (Gallina, ~1e-15) used only for model execution",
]
ASSUMPTIONS = [
    "angle theorems are over exact reals with pi the real number; binary64 range membership of the normalisers is checked per run on the boundary corpus, not proved",
    "Interval theorems hold for every finite binary64 value (FloatAxioms of the Coq standard library)",
    "AngleInterval::contains is specified as a sandwich: sound up to ANGLE_TOL, complete for exactly swept angles",
]

SPECS = [
    dict(rust="src/common/angles.rs", gen="Angles", model="Model.Angles", fields=["AngleInterval", "AngleDir"],
         fns=["AngleDir_to_sign", "AngleDir_from_sign", "AngleDir_opposite", "angle_in_direction", "angle_signed_pi",
              "angle_to_2pi", "signed_compliment_2pi", "AngleInterval_new", "AngleInterval_contains",
              "AngleInterval_intersects", "AngleInterval_at_fraction"]),
    dict(rust="src/common/interval.rs", gen="Interval", model="Model.Interval", fields=["Interval"],
         fns=["Interval_new", "Interval_new__asserts", "Interval_try_new", "Interval_new_unchecked", "Interval_length",
              "Interval_contains", "Interval_contains_interval", "Interval_overlaps", "Interval_intersection", "Interval_clamp"]),
    dict(rust="src/geom2/angles2.rs", gen="Angles2", model="Model.Angles", extra_enums={"AngleDir": ["Cw", "Ccw"]},
         fns=["signed_angle", "directed_angle"]),
]


def translate():
    return C.translator_tie(SPECS)


PI = math.pi


def ulps(x):
    return [x, math.nextafter(x, -math.inf), math.nextafter(x, math.inf)]


SPECIAL = []
for base in [0.0, PI, -PI, 2 * PI, -2 * PI, PI / 2, -PI / 2, 4 * PI, -4 * PI, 3 * PI, -3 * PI]:
    SPECIAL += ulps(base)
SPECIAL += [-0.0, 1e-300, -1e-300, -1e-17, 1e-17, -5e-324, 5e-324, 1e6, -1e6, 123456.789, -999999.25, 6.283185307179587]


def rnd_angle(rng):
    r = rng.random()
    if r < 0.45:
        return rng.choice(SPECIAL)
    if r < 0.8:
        return rng.uniform(-8 * PI, 8 * PI)
    if r < 0.9:
        return rng.uniform(-1e6, 1e6)
    return rng.randint(-50, 50) * 2 * PI + rng.choice([0.0, 1e-9, -1e-9, 1e-13, -1e-13])


def corpus():
    for a in SPECIAL:
        yield {"k": "c18.angles", "a": a, "b": 0.5}
    yield {"k": "c18.angles", "a": PI, "b": -PI}
    yield {"k": "c18.angles", "a": 1.0, "b": 1.0}
    yield {"k": "c18.vec", "v1": [1.0, 0.0], "v2": [-1.0, 0.0]}
    yield {"k": "c18.vec", "v1": [1.0, 2.0], "v2": [1.0, 2.0]}
    yield {"k": "c18.interval", "a": 1.0, "b": 0.0, "c": 0.5, "d": 2.0, "x": 0.75}
    yield {"k": "c18.interval", "a": float("nan"), "b": 0.0, "c": 0.5, "d": 2.0, "x": 0.75}


def gen_vec(rng):
    r = rng.random()
    v1 = [rng.uniform(-3, 3), rng.uniform(-3, 3)]
    if r < 0.15:
        v2 = list(v1)
    elif r < 0.3:
        v2 = [-v1[0], -v1[1]]
    elif r < 0.4:
        v2 = [-v1[1], v1[0]]
    elif r < 0.5:
        s = rng.uniform(0.1, 5)
        v2 = [v1[0] * s, v1[1] * s]
    else:
        v2 = [rng.uniform(-3, 3), rng.uniform(-3, 3)]
    if rng.random() < 0.2:
        v1 = [float(round(v1[0])), float(round(v1[1]))]
        v2 = [float(round(v2[0])), float(round(v2[1]))]
    return {"k": "c18.vec", "v1": v1, "v2": v2}


def gen_ainterval(rng):
    s = rnd_angle(rng) if rng.random() < 0.5 else rng.uniform(-7, 7)
    e = rng.choice([rng.uniform(-7, 7), rng.uniform(-2 * PI, 2 * PI), 0.0, 2 * PI, -2 * PI, 7.0, -7.0, PI, 1e-13])
    qs = []
    for f in [0.0, 0.25, 0.5, 1.0, rng.random(), rng.random()]:
        q = s + e * f
        qs += [q, q + rng.choice([-2, -1, 1, 2]) * 2 * PI]
    qs += [s - 0.01 * (1 if e >= 0 else -1), s + e + 0.01 * (1 if e >= 0 else -1), s + e / 2 + PI, rng.uniform(-10, 10),
           s - 5e-13, s + e + 5e-13, s - 2e-12, s + e + 2e-12]
    os_, oe = rng.uniform(-7, 7), rng.choice([rng.uniform(-7, 7), 0.0, 0.3, -0.3])
    if rng.random() < 0.3:
        os_, oe = s + e + rng.choice([0.0, 1e-9, -1e-9, 0.2]), rng.uniform(0, 1)
    return {"k": "c18.ainterval", "s": s, "e": e, "os": os_, "oe": oe, "qs": qs}


def rnd_bound(rng):
    r = rng.random()
    if r < 0.6:
        return float(rng.randint(-3, 3))
    if r < 0.85:
        return rng.uniform(-3, 3)
    if r < 0.95:
        return rng.choice([math.inf, -math.inf, 1e308, -1e308, 5e-324, -0.0])
    return float("nan")


def gen_interval(rng):
    a, b, c, d = (rnd_bound(rng) for _ in range(4))
    if math.isnan(c):
        c = 0.0
    if math.isnan(d):
        d = 1.0
    x = rng.choice([a, b, c, d, rng.uniform(-4, 4)])
    if math.isnan(x):
        x = 0.0
    if rng.random() < 0.3 and not math.isnan(x):
        x = math.nextafter(x, rng.choice([-math.inf, math.inf]))
    return {"k": "c18.interval", "a": a, "b": b, "c": c, "d": d, "x": x}


def generate(rng, tier):
    n = 150 if tier == "quick" else 3000
    out = []
    for _ in range(n):
        out.append({"k": "c18.angles", "a": rnd_angle(rng), "b": rnd_angle(rng)})
        out.append(gen_vec(rng))
        out.append(gen_ainterval(rng))
        out.append(gen_interval(rng))
    return out


def tag(c, r):
    k = c["k"]
    if k == "c18.angles":
        a = c["a"]
        cls = "special" if a in SPECIAL else ("big" if abs(a) > 100 else "mid")
        return "%s:%s:%s" % (k, cls, "neg" if a < 0 else "pos")
    if k == "c18.vec":
        return k
    if k == "c18.ainterval":
        return "%s:%s:%s" % (k, "neg" if c["e"] < 0 else "pos", "full" if abs(c["e"]) >= 2 * PI else "part")
    if r.get("new") is None:
        return k + ":nan"
    return "%s:%s:%s" % (k, "swapped" if c["a"] > c["b"] else "ordered", "inter" if r.get("inter") else "disjoint")


def coq_check(c, r):
    k = c["k"]
    if k == "c18.angles":
        return "check_angles %s %s %s" % (coq(c["a"]), coq(c["b"]), coq((r["to2pi"], r["signed"], r["cw"], r["ccw"], r["comp"])))
    if k == "c18.vec":
        return "check_vec_angles %s %s %s" % (coq(tuple(c["v1"])), coq(tuple(c["v2"])), coq((r["signed"], r["cw"], r["ccw"])))
    if k == "c18.ainterval":
        return "check_ainterval %s %s %s %s %s %s" % (coq(c["s"]), coq(c["e"]), coq(c["qs"]), coq(c["os"]), coq(c["oe"]),
                                                     coq((r["start"], r["angle"], [bool(b) for b in r["contains"]], bool(r["intersects"]))))
    if k == "c18.interval":
        def o2(v):
            return None if v is None else Some((v[0], v[1]))
        if r["new"] is None:
            return "check_interval %s %s %s %s %s None %s false false None nan" % (
                coq(c["a"]), coq(c["b"]), coq(c["c"]), coq(c["d"]), coq(c["x"]), coq(o2(r["try"])))
        return "check_interval %s %s %s %s %s %s %s %s %s %s %s" % (
            coq(c["a"]), coq(c["b"]), coq(c["c"]), coq(c["d"]), coq(c["x"]), coq(o2(r["new"])), coq(o2(r["try"])),
            coq(bool(r["contains"])), coq(bool(r["overlaps"])), coq(o2(r["inter"])), coq(r["clamp"]))
    return None


def samedir(a, b, tol=1e-9):
    d = math.fmod(a - b, 2 * PI)
    return min(abs(d), abs(abs(d) - 2 * PI)) <= tol * max(1.0, abs(a), abs(b))


def oracle(c, r):
    k = c["k"]
    if k == "c18.angles":
        a, b = c["a"], c["b"]
        if not (0.0 <= r["to2pi"] <= 2 * PI):
            yield ("to2pi-range", "angle_to_2pi(%r) = %r outside [0, 2pi]" % (a, r["to2pi"]))
        if not samedir(r["to2pi"], a):
            yield ("to2pi-dir", "angle_to_2pi(%r) = %r denotes another direction" % (a, r["to2pi"]))
        if not (-PI <= r["signed"] <= PI):
            yield ("signed-range", "angle_signed_pi(%r) = %r outside [-pi, pi]" % (a, r["signed"]))
        if not samedir(r["signed"], a):
            yield ("signed-dir", "angle_signed_pi(%r) = %r denotes another direction" % (a, r["signed"]))
        for nm, sgn in (("cw", -1.0), ("ccw", 1.0)):
            v = r[nm]
            if not (0.0 <= v <= 2 * PI * (1 + 1e-15)):
                yield ("indir-range", "angle_in_direction(%r, %r, %s) = %r outside [0, 2pi]" % (a, b, nm, v))
            if not samedir(a + sgn * v, b):
                yield ("indir-rotates", "rotating %r by %r (%s) does not give %r" % (a, v, nm, b))
        s = r["cw"] + r["ccw"]
        if not (C.close(s, 2 * PI) or (abs(r["cw"]) < 1e-9 and abs(r["ccw"]) < 1e-9)):
            yield ("cw-ccw-sum", "cw %r + ccw %r is neither a full turn nor zero (a=%r b=%r)" % (r["cw"], r["ccw"], a, b))
        want = a - 2 * PI if a >= 0 else a + 2 * PI
        if not C.close(r["comp"], want):
            yield ("compliment", "signed_compliment_2pi(%r) = %r, expected %r" % (a, r["comp"], want))
    elif k == "c18.vec":
        v1, v2 = c["v1"], c["v2"]
        if "rot90" in r:
            sc = max(1.0, abs(v1[0]), abs(v1[1]))
            ccw, cw = [-v1[1], v1[0]], [v1[1], -v1[0]]
            for nm, want in (("rot90", (ccw, cw)), ("rot270", (cw, ccw))):
                for got, w, d in zip(r[nm], want, ("Ccw", "Cw")):
                    if math.hypot(got[0] - w[0], got[1] - w[1]) > 1e-12 * sc:
                        yield ("quarter-turn", "%s(%s) * %r = %r, a quarter turn that way is %r" % (nm, d, v1, got, w))
            if r["signs"] != [1.0, -1.0] or r["from_sign"] != [v1[0] >= 0, True, True, True, True]:
                yield ("direction-sign", "to_sign = %r, from_sign / opposite checks %r for x = %r" % (r["signs"], r["from_sign"], v1[0]))
        n1, n2 = math.hypot(*v1), math.hypot(*v2)
        if n1 < 1e-9 or n2 < 1e-9:
            return
        for nm, sgn in (("signed", 1.0), ("ccw", 1.0), ("cw", -1.0)):
            t = sgn * r[nm]
            rx = (v1[0] * math.cos(t) - v1[1] * math.sin(t)) / n1
            ry = (v1[0] * math.sin(t) + v1[1] * math.cos(t)) / n1
            if math.hypot(rx - v2[0] / n2, ry - v2[1] / n2) > 1e-9:
                yield ("vec-rotates", "%s angle %r does not rotate %r onto %r" % (nm, r[nm], v1, v2))
        for nm in ("cw", "ccw"):
            if not (0.0 <= r[nm] <= 2 * PI):
                yield ("vec-range", "directed angle %s = %r outside [0, 2pi]" % (nm, r[nm]))
        s = r["cw"] + r["ccw"]
        if not (C.close(s, 2 * PI) or (abs(r["cw"]) < 1e-9 and abs(r["ccw"]) < 1e-9)):
            yield ("vec-sum", "cw %r + ccw %r is neither a full turn nor zero" % (r["cw"], r["ccw"]))
    elif k == "c18.ainterval":
        s, e = c["s"], c["e"]
        lo, ext = (s, min(e, 2 * PI)) if e >= 0 else (s + e, min(-e, 2 * PI))
        if not (0.0 <= r["start"] <= 2 * PI and 0.0 <= r["angle"] <= 2 * PI):
            yield ("ai-wf", "AngleInterval::new(%r, %r) has start %r / extent %r outside their ranges" % (s, e, r["start"], r["angle"]))
        for q, got in zip(c["qs"], r["contains"]):
            d = math.fmod(q - lo, 2 * PI)
            if d < 0:
                d += 2 * PI
            scale = max(1.0, abs(q), abs(lo)) * 1e-9
            inside = d <= ext - scale or d >= 2 * PI - 0 and ext >= 2 * PI
            outside = ext + scale + 1e-11 < d < 2 * PI - scale - 1e-11
            if inside and d >= scale and not got:
                yield ("ai-contains-missing", "interval(start=%r, extent=%r) does not contain swept angle %r" % (s, e, q))
            if outside and got:
                yield ("ai-contains-extra", "interval(start=%r, extent=%r) contains %r which is outside the sweep" % (s, e, q))
        if r["intersects"] != r["rintersects"]:
            yield ("ai-intersects-asym", "intersects is not symmetric for (%r,%r) and (%r,%r)" % (s, e, c["os"], c["oe"]))
        if r["intersects"]:
            # they must share an angle: one of the starts is in both
            pass
        else:
            for q, a_in, b_in in zip(c["qs"], r["contains"], r["ocontains"]):
                if a_in and b_in:
                    yield ("ai-intersects-missed", "both intervals contain %r but intersects() is false" % (q,))
                    break
    elif k == "c18.interval":
        a, b, x = c["a"], c["b"], c["x"]
        if math.isnan(a) or math.isnan(b):
            if r["new"] is not None or r["try"] is not None:
                yield ("interval-nan", "NaN bound accepted: new=%r try=%r" % (r["new"], r["try"]))
            return
        if r["new"] is None:
            yield ("interval-new-panic", "Interval::new(%r, %r) panicked" % (a, b))
            return
        lo, hi = r["new"]
        if (lo, hi) != (min(a, b), max(a, b)):
            yield ("interval-order", "Interval::new(%r, %r) = [%r, %r]" % (a, b, lo, hi))
        if r["try"] is None or tuple(r["try"]) != (min(a, b), max(a, b)):
            yield ("interval-order", "Interval::try_new(%r, %r) = %r, the bounds in order are [%r, %r]" % (a, b, r["try"], min(a, b), max(a, b)))
        olo, ohi = r["o"]
        if r["contains"] != (lo <= x <= hi):
            yield ("interval-contains", "[%r,%r].contains(%r) = %r" % (lo, hi, x, r["contains"]))
        share = max(lo, olo) <= min(hi, ohi)
        if r["overlaps"] != share or r["roverlaps"] != share:
            yield ("interval-overlaps", "[%r,%r] overlaps [%r,%r] = %r/%r, sets %s" % (lo, hi, olo, ohi, r["overlaps"], r["roverlaps"], "meet" if share else "are disjoint"))
        if r["inter"] != r["rinter"]:
            yield ("interval-inter-comm", "intersection is not commutative: %r vs %r" % (r["inter"], r["rinter"]))
        if share:
            if r["inter"] is None or tuple(r["inter"]) != (max(lo, olo), min(hi, ohi)):
                yield ("interval-inter", "intersection of [%r,%r] and [%r,%r] = %r" % (lo, hi, olo, ohi, r["inter"]))
        elif r["inter"] is not None:
            yield ("interval-inter", "disjoint intervals [%r,%r], [%r,%r] intersect as %r" % (lo, hi, olo, ohi, r["inter"]))
        want = min(max(x, lo), hi)
        if r["clamp"] != want:
            yield ("interval-clamp", "[%r,%r].clamp(%r) = %r, expected %r" % (lo, hi, x, r["clamp"], want))
