"""C11  Circle, arc and tangent constructions satisfy their defining constraints."""
import math
import common as C
from common import Some, Nat, Raw, opt, coq

LEVEL = "proof"
COQ_IMPORTS = ["Tie.C11"]
RULE = ("circle pairs drawn per configuration class (separate, externally tangent, crossing, internally tangent, nested, "
        "concentric, equal radii) with centres off the origin; external points at distance ratios d/r from 1.001 to 1e3; "
        "lines/segments missing, touching and crossing; point triples in general position and nearly collinear; arcs with any "
        "centre, start angle and signed sweep up to +-2pi. distinct = distinct (tag, input)")
TRUSTED_BASE = [
    "Coq 8.16.1 kernel and vm_compute",
    "hand-written model coq/Model/Circle.v tied by differential correspondence Tie/C11.v (decisions within rounding of a tolerance threshold are counted as ambiguous, not compared)",
    "FNum sin/cos/acos/atan2 are Gallina implementations (~1e-15), used only to execute the model",
    "hook geom2::circle2_verif::line_circle re-exports intersection_line_circle (public fn of a private module)",
]
ASSUMPTIONS = [
    "theorems over exact reals; points in the touching bands (|d - (r0 +- r1)| < 1e-10) are on both circles only up to the band width",
    "arc bounding boxes: containment/tightness is checked per run by dense sampling (oracle), not proved",
]

PI = math.pi


def rnd_circle(rng):
    return [rng.uniform(-5, 5), rng.uniform(-5, 5), rng.uniform(0.2, 4)]


def gen_cc(rng):
    c0 = rnd_circle(rng)
    r1 = rng.choice([c0[2], rng.uniform(0.2, 4)])
    ang = rng.uniform(0, 2 * PI)
    cls = rng.choice(["separate", "ext_tangent", "crossing", "int_tangent", "nested", "concentric", "near_ext", "near_int"])
    rs, rd = c0[2] + r1, abs(c0[2] - r1)
    if cls == "separate":
        d = rs + rng.uniform(0.01, 3)
    elif cls == "ext_tangent":
        d = rs
    elif cls == "crossing":
        d = rng.uniform(rd + 1e-3, rs - 1e-3) if rs - rd > 2e-3 else rs / 2
    elif cls == "int_tangent":
        d = rd
    elif cls == "nested":
        d = rd * rng.uniform(0.05, 0.95)
    elif cls == "concentric":
        d = 0.0
    elif cls == "near_ext":
        d = rs - rng.choice([1e-6, 1e-8, 5e-11])
    else:
        d = rd + rng.choice([1e-6, 1e-8, 5e-11])
    c1 = [c0[0] + d * math.cos(ang), c0[1] + d * math.sin(ang), r1]
    return {"k": "c11.cc", "c0": c0, "c1": c1, "cls": cls}


def gen_tangent(rng):
    c0 = rnd_circle(rng)
    ratio = rng.choice([1.001, 1.1, 1.4142135623730951, 2.0, 3.0, 10.0, 1000.0, rng.uniform(1.01, 20), 0.5, 1.0])
    ang = rng.uniform(0, 2 * PI)
    p = [c0[0] + c0[2] * ratio * math.cos(ang), c0[1] + c0[2] * ratio * math.sin(ang)]
    c1 = rnd_circle(rng)
    r = rng.random()
    if r < 0.2:
        c1[2] = c0[2]
    elif r < 0.3:
        c1[0], c1[1] = c0[0], c0[1]
    return {"k": "c11.tangent", "c0": c0, "c1": c1, "p": p, "theta": rng.uniform(-7, 7), "ratio": ratio}


# translator tie: the straight-line functions of geom2/circle2.rs are regenerated on every run and proved (by conversion) to be
# the model's functions on the same circle / arc; the generated records differ from the model's only in names and in carrying the
# cached bounding box
_CC = "(@mkCirc N (Circle2_center s) (Ball_radius (Circle2_ball s)))"
_AA = "(@mkArc N (@mkCirc N (Circle2_center (Arc2_circle a)) (Ball_radius (Circle2_ball (Arc2_circle a)))) (Arc2_angle0 a) (Arc2_angle a))"
_Q = "forall (N : EG.Num.Num.Num) "
SPECS = [dict(rust="src/geom2/circle2.rs", gen="Circle2", model="Model.Circle", types="Model.Types Model.Circle", fns=[],
              aux=["Arc2_center", "Arc2_radius"], fields=["Circle2", "Arc2"], extra_structs={"Ball": [("radius", "f64")]}, stmts={
    "Circle2_point_at_angle": _Q + "(s : @Circle2 N) t, @{G}.Circle2_point_at_angle N s t = @{M}.point_at_angle N %s t" % _CC,
    "Circle2_project_point_to_perimeter": _Q + "(s : @Circle2 N) p, @{G}.Circle2_project_point_to_perimeter N s p = @{M}.project_to_perimeter N %s p" % _CC,
    "Circle2_angle_of_point": _Q + "(s : @Circle2 N) p, @{G}.Circle2_angle_of_point N s p = @{M}.angle_of_point N %s p" % _CC,
    "Circle2_distance_to": _Q + "(s : @Circle2 N) p, @{G}.Circle2_distance_to N s p = @{M}.circ_distance N %s p" % _CC,
    "Circle2_tangent_points_to": _Q + "(s : @Circle2 N) p, @{G}.Circle2_tangent_points_to N s p = @{M}.tangent_points_to N %s p" % _CC,
    "Arc2_length": _Q + "(a : @Arc2 N), @{G}.Arc2_length N a = @{M}.arc_length N %s" % _AA,
    "Arc2_point_at_angle": _Q + "(a : @Arc2 N) t, @{G}.Arc2_point_at_angle N a t = @{M}.arc_point_at_angle N %s t" % _AA,
    "Arc2_point_at_fraction": _Q + "(a : @Arc2 N) f, @{G}.Arc2_point_at_fraction N a f = @{M}.arc_point_at_fraction N %s f" % _AA,
    "Arc2_point_at_length": _Q + "(a : @Arc2 N) l, @{G}.Arc2_point_at_length N a l = @{M}.arc_point_at_length N %s l" % _AA,
    "Arc2_start": _Q + "(a : @Arc2 N), @{G}.Arc2_start N a = @{M}.arc_start N %s" % _AA,
    "Arc2_end": _Q + "(a : @Arc2 N), @{G}.Arc2_end N a = @{M}.arc_end N %s" % _AA,
})]

# geom2/line2.rs: Segment2 construction (the 1e-12 guard) and reversal, as used by the outer-tangent construction
SPECS.append(dict(rust="src/geom2/line2.rs", gen="Line2Seg", model="Model.Circle", types="Model.Types Model.Circle", fns=[], fields=["Segment2"], stmts={
    "Segment2_try_new": _Q + "a b, match @{G}.Segment2_try_new N a b with Ok s => Some (Segment2_a s, Segment2_b s) | _ => None end = @{M}.seg_try_new N a b",
    "Segment2_reversed": _Q + "(s : @Segment2 N), (let r := @{G}.Segment2_reversed N s in (Segment2_a r, Segment2_b r)) = @{M}.seg_reversed N (Segment2_a s, Segment2_b s)",
}, proofs={
    # the Result on one side and the option on the other: one case split on the guard, then conversion
    "Segment2_try_new": "intros; unfold {G}.Segment2_try_new, {M}.seg_try_new; destruct (nltb _ _); reflexivity.",
}))


def translate():
    return C.translator_tie(SPECS)


def gen_line(rng):
    c0 = rnd_circle(rng)
    ang = rng.uniform(0, 2 * PI)
    off = c0[2] * rng.choice([0.0, 0.3, 0.9, 1.0, 1.5, rng.uniform(0, 2)])
    foot = [c0[0] + off * math.cos(ang), c0[1] + off * math.sin(ang)]
    d = [-math.sin(ang), math.cos(ang)]
    l0, l1 = rng.uniform(-6, 0.5), rng.uniform(0.2, 6)
    a = [foot[0] + d[0] * l0, foot[1] + d[1] * l0]
    b = [foot[0] + d[0] * l1, foot[1] + d[1] * l1]
    return {"k": "c11.line", "c0": c0, "a": a, "b": b}


def gen_arc3(rng):
    c = rnd_circle(rng)
    a0 = rng.uniform(-PI, PI)
    sweep = rng.uniform(0.05, 2 * PI - 0.05) * rng.choice([-1, 1])
    f = rng.uniform(0.1, 0.9)
    pts = [[c[0] + c[2] * math.cos(a0 + sweep * t), c[1] + c[2] * math.sin(a0 + sweep * t)] for t in (0.0, f, 1.0)]
    return {"k": "c11.arc3", "p0": pts[0], "p1": pts[1], "p2": pts[2], "fs": [0.0, 0.25, 0.5, 1.0, rng.random()], "sweep": sweep}


def gen_arc(rng):
    c = rnd_circle(rng)
    a0 = rng.choice([rng.uniform(-7, 7), 0.0, PI / 2, -PI / 2, PI])
    a = rng.choice([rng.uniform(-2 * PI, 2 * PI), PI / 2, -PI, 2 * PI, -2 * PI, 1e-3])
    return {"k": "c11.arc", "cx": c[0], "cy": c[1], "r": c[2], "a0": a0, "a": a, "fs": [0.0, 0.25, 0.5, 1.0, rng.random()]}


def gen_arcpa(rng):
    c = rnd_circle(rng)
    t = rng.uniform(-PI, PI)
    d = c[2] * rng.choice([1.0, 0.3, 2.5])          # the marking point need not be on the circle
    a = rng.choice([rng.uniform(-2 * PI, 2 * PI), PI / 2, -PI, 2 * PI, -2 * PI, 1e-3])
    return {"k": "c11.arcpa", "cx": c[0], "cy": c[1], "r": c[2], "p": [c[0] + d * math.cos(t), c[1] + d * math.sin(t)], "a": a, "t": t,
            "fs": [0.0, 0.25, 0.5, 1.0, rng.random()]}


def corpus():
    # D22 witness (fixed): outer tangents of nested circles panicked
    yield {"k": "c11.tangent", "c0": [-2.69, 0.18, 0.467], "c1": [-1.59, -2.06, 3.886], "p": [-2.9, -0.28], "theta": 0.1, "ratio": 1.1}
    # D7 witness (fixed): tangents from (3,0) to the unit circle; D8 witnesses (fixed): nested, internally tangent
    yield {"k": "c11.tangent", "c0": [0.0, 0.0, 1.0], "c1": [5.0, 1.0, 2.0], "p": [3.0, 0.0], "theta": 0.5, "ratio": 3.0}
    yield {"k": "c11.cc", "c0": [0.0, 0.0, 3.0], "c1": [0.5, 0.0, 1.0], "cls": "nested"}
    yield {"k": "c11.cc", "c0": [0.0, 0.0, 3.0], "c1": [2.0, 0.0, 1.0], "cls": "int_tangent"}
    yield {"k": "c11.cc", "c0": [0.0, 0.0, 1.0], "c1": [2.0, 0.0, 1.0], "cls": "ext_tangent"}


def gen_boxes(rng):
    cx, cy, rad = rng.uniform(-20, 20), rng.uniform(-20, 20), rng.uniform(0.3, 8)
    a0, ext, n = rng.uniform(0, 2 * math.pi), rng.uniform(1.5, 6.2), rng.choice([6, 15, 40])
    pts = [[cx + (rad + rng.uniform(-1e-3, 1e-3)) * math.cos(a0 + ext * i / (n - 1)), cy + (rad + rng.uniform(-1e-3, 1e-3)) * math.sin(a0 + ext * i / (n - 1))] for i in range(n)]
    g = [cx + rng.uniform(-0.3, 0.3) * rad, cy + rng.uniform(-0.3, 0.3) * rad, rad * rng.uniform(0.7, 1.4)]
    return {"k": "c11.boxes", "pts": pts, "guess": g}


def generate(rng, tier):
    n = 100 if tier == "quick" else 1500
    out = []
    for _ in range(n):
        out += [gen_cc(rng), gen_tangent(rng), gen_line(rng), gen_arc3(rng), gen_arc(rng)]
    for _ in range(n // 5):
        out += [gen_boxes(rng), gen_arcpa(rng)]
    return out


def tag(c, r):
    k = c["k"]
    if r.get("err") or r.get("panic"):
        return k + (":err" if r.get("err") else ":panic")
    if k == "c11.cc":
        return "%s:%s:%d" % (k, c["cls"], len(r["i01"]))
    if k == "c11.tangent":
        return "%s:%s:%s" % (k, "in" if c["ratio"] <= 1 else ("near" if c["ratio"] < 1.2 else ("far" if c["ratio"] > 50 else "mid")),
                             "ot" if r["outer"] else "noot")
    if k == "c11.line":
        return "%s:%d:%d" % (k, len(r["ts"]), len(r["pts"]))
    if k == "c11.arc3":
        return "%s:%s" % (k, "ccw" if c["sweep"] > 0 else "cw")
    return "%s:%s" % (k, "neg" if c["a"] < 0 else "pos")


def T(p):
    return tuple(float(x) for x in p)


def rarc(r):
    return (r["a0"], r["a"], T(r["start"]), T(r["end"]), r["len"], [T(p) for p in r["at_f"]], [T(p) for p in r["at_l"]],
            (T(r["aabb"][0]), T(r["aabb"][1])))


def coq_check(c, r):
    k = c["k"]
    if r.get("err") or r.get("panic"):
        return None
    if k == "c11.cc":
        iv = None if r["interval"] is None else Some((r["interval"][0], r["interval"][1]))
        return "both (check_cc %s %s %s %s) (check_cc_interval %s %s %s)" % (
            coq(T(c["c0"])), coq(T(c["c1"])), coq([T(p) for p in r["i01"]]), coq([T(p) for p in r["i10"]]), coq(T(c["c0"])), coq(T(c["c1"])), coq(iv))
    if k == "c11.tangent":
        rt = None if r["tangent"] is None else Some((T(r["tangent"][0]), T(r["tangent"][1])))
        ro = None if r["outer"] is None else Some(((T(r["outer"][0][0]), T(r["outer"][0][1])), (T(r["outer"][1][0]), T(r["outer"][1][1]))))
        rp = None if r["project"] is None else Some(T(r["project"]))
        return "check_tangent %s %s %s %s %s %s %s %s %s %s" % (coq(T(c["c0"])), coq(T(c["c1"])), coq(T(c["p"])), coq(c["theta"]),
                                                               coq(rt), coq(ro), coq(rp), coq(r["dist"]), coq(r["angle"]), coq(T(r["at_angle"])))
    if k == "c11.line":
        return "check_line %s %s %s %s %s" % (coq(T(c["c0"])), coq(T(c["a"])), coq(T(c["b"])), coq(list(r["ts"])), coq([T(p) for p in r["pts"]]))
    if k == "c11.arc3":
        return "check_arc3 %s %s %s %s %s %s" % (coq((r["c"][0], r["c"][1], r["r"])), coq(T(c["p0"])), coq(T(c["p1"])), coq(T(c["p2"])),
                                                coq(c["fs"]), coq(rarc(r)))
    if k == "c11.arc":
        return "check_arc %s %s %s %s %s" % (coq((c["cx"], c["cy"], c["r"])), coq(c["a0"]), coq(c["a"]), coq(c["fs"]), coq(rarc(r)))
    return None


def dist(a, b):
    return math.hypot(a[0] - b[0], a[1] - b[1])


def fin(p):
    return all(math.isfinite(x) for x in p)


def on_circle(p, c, tol):
    return abs(dist(p, c) - c[2]) <= tol * max(1.0, c[2])


def arc_checks(name, r, center, rad, a0, a):
    """arc consistency + bounding box containment / tightness by dense sampling"""
    L = rad * abs(a)
    if not C.close(r["len"], L, 1e-9):
        yield (name + "-length", "arc length %r, radius*|sweep| = %r" % (r["len"], L))
    mins, maxs = r["aabb"]
    n = 720
    xs, ys = [], []
    for i in range(n + 1):
        t = a0 + a * i / n
        xs.append(center[0] + rad * math.cos(t))
        ys.append(center[1] + rad * math.sin(t))
    slack = 1e-9 * max(1.0, rad)
    if min(xs) < mins[0] - slack or max(xs) > maxs[0] + slack or min(ys) < mins[1] - slack or max(ys) > maxs[1] + slack:
        yield (name + "-aabb-contains", "bounding box %r does not contain the arc (centre %r r %r a0 %r sweep %r)" % (r["aabb"], center, rad, a0, a))
    loose = rad * (1 - math.cos(abs(a) / n)) + 1e-9 * max(1.0, rad) + 1e-12
    # tightness: the arc must come within one sampling step of each side
    step = rad * abs(a) / n + loose
    if min(xs) - mins[0] > step or maxs[0] - max(xs) > step or min(ys) - mins[1] > step or maxs[1] - max(ys) > step:
        yield (name + "-aabb-tight", "bounding box %r does not touch the arc on all four sides (centre %r r %r a0 %r sweep %r)" % (r["aabb"], center, rad, a0, a))


def oracle(c, r):
    k = c["k"]
    if r.get("panic"):
        yield (k[4:] + "-panic", "%s panicked on %r" % (k, {x: c[x] for x in c if x not in ("k",)}))
        return
    if r.get("err"):
        return
    if k == "c11.cc":
        c0, c1 = c["c0"], c["c1"]
        d = dist(c0, c1)
        rs, rd = c0[2] + c1[2], abs(c0[2] - c1[2])
        for nm, lst in (("i01", r["i01"]), ("i10", r["i10"])):
            for p in lst:
                if not fin(p):
                    yield ("cc-nonfinite", "intersections of %r and %r contain a non-finite point %r" % (c0, c1, p))
                    return
                band = 2e-5   # points in the touching band are off by up to sqrt(2*r*1e-10)
                if not (on_circle(p, c0, band) and on_circle(p, c1, band)):
                    yield ("cc-on-both", "intersection point %r of %r and %r is not on both circles (%r, %r)" % (p, c0, c1, dist(p, c0) - c0[2], dist(p, c1) - c1[2]))
                    return
            n = len(lst)
            margin = 1e-9
            if abs(d - rs) <= 1e-14 * max(1.0, rs):
                want = None         # within rounding of r0 + r1: the oracle's own d may differ from the implementation's in the last bit
            elif d < 1e-10 - 1e-13 or d > rs or d < rd - 1e-10 - margin:
                want = 0            # concentric, separate (any d > r0 + r1, however little), nested
            elif rs - 1e-10 + 1e-13 < d <= rs or abs(d - rd) < 1e-10 - 1e-13:
                want = 1
            elif rd + 1e-10 + margin < d < rs - 1e-10 - margin:
                want = 2
            else:
                want = None
            if want is not None and n != want:
                yield ("cc-count", "%d intersections returned for circles %r, %r (d=%r, r0+r1=%r, |r0-r1|=%r): expected %d" % (n, c0, c1, d, rs, rd, want))
                return
            if n == 2 and dist(lst[0], lst[1]) < 1e-12:
                yield ("cc-duplicate", "the same intersection point is returned twice for %r, %r" % (c0, c1))
        # the interval of the first circle that lies inside the second: it ends at the two crossing points and its middle is
        # inside the other circle (the middle of the rest of the circle is outside)
        iv = r["interval"]
        n01 = len(r["i01"])
        if (iv is None) != (n01 == 0):
            yield ("cc-interval", "circles %r, %r: %d intersections but intersection_interval is %r" % (c0, c1, n01, iv))
        elif n01 == 2 and rd + 1e-6 < d < rs - 1e-6:
            st, an = iv
            ends = [[c0[0] + c0[2] * math.cos(t), c0[1] + c0[2] * math.sin(t)] for t in (st, st + an)]
            pair = lambda a, b: max(dist(ends[0], a), dist(ends[1], b))
            if min(pair(r["i01"][0], r["i01"][1]), pair(r["i01"][1], r["i01"][0])) > 1e-7 * max(1.0, c0[2]):
                yield ("cc-interval", "circles %r, %r: the interval (start %r, extent %r) ends at %r, the crossing points are %r" % (c0, c1, st, an, ends, r["i01"]))
            else:
                mid = [c0[0] + c0[2] * math.cos(st + an / 2), c0[1] + c0[2] * math.sin(st + an / 2)]
                opp = [c0[0] - c0[2] * math.cos(st + an / 2), c0[1] - c0[2] * math.sin(st + an / 2)]
                if not (dist(mid, c1) < c1[2] and dist(opp, c1) > c1[2]):
                    yield ("cc-interval", "circles %r, %r: the middle %r of the interval (start %r, extent %r) is %r from the other centre (radius %r), the opposite point %r is %r from it: the interval is not the part inside the other circle" % (
                        c0, c1, mid, st, an, dist(mid, c1), c1[2], opp, dist(opp, c1)))
        mins, maxs = r["aabb0"]
        want = ([c0[0] - c0[2], c0[1] - c0[2]], [c0[0] + c0[2], c0[1] + c0[2]])
        if dist(mins, want[0]) > 1e-9 or dist(maxs, want[1]) > 1e-9:
            yield ("circle-aabb", "circle bounding box %r, expected %r" % (r["aabb0"], want))
    elif k == "c11.boxes":
        for o in r["out"]:
            x, y, rad = o["c"]
            want = ([x - rad, y - rad], [x + rad, y + rad])
            for nm in ("aabb", "arc"):
                mins, maxs = o[nm]
                if dist(mins, want[0]) > 1e-9 * max(1.0, abs(x), abs(y), rad) or dist(maxs, want[1]) > 1e-9 * max(1.0, abs(x), abs(y), rad):
                    yield ("circle-aabb", "circle (%r, %r, r %r) made by %s carries the %s %r, its box is %r" % (x, y, rad, o["how"], "cached box" if nm == "aabb" else "full-arc box", o[nm], want))
                    return
    elif k == "c11.tangent":
        c0, p = c["c0"], c["p"]
        d = dist(c0, p)
        if d > c0[2] * (1 + 1e-9):
            if r["tangent"] is None:
                yield ("tangent-missing", "no tangent points from external point %r to %r" % (p, c0))
            else:
                for t in r["tangent"]:
                    if not on_circle(t, c0, 1e-9):
                        yield ("tangent-on-circle", "tangent point %r is not on circle %r" % (t, c0))
                        break
                    dotp = (t[0] - c0[0]) * (p[0] - t[0]) + (t[1] - c0[1]) * (p[1] - t[1])
                    if abs(dotp) > 1e-7 * max(1.0, c0[2] * d):
                        yield ("tangent-perp", "tangent from %r to circle %r at %r: (t-c).(p-t) = %r (d/r = %r)" % (p, c0, t, dotp, d / c0[2]))
                        break
        elif d < c0[2] * (1 - 1e-9) and r["tangent"] is not None:
            yield ("tangent-inside", "tangent points returned for an interior point")
        if r["project"] is not None and not on_circle(r["project"], c0, 1e-9):
            yield ("project-perimeter", "projection %r is not on the circle" % (r["project"],))
        if r["outer"] is not None:
            c1 = c["c1"]
            for s in r["outer"]:
                a, b = s
                dv = [b[0] - a[0], b[1] - a[1]]
                if not (on_circle(a, c0, 1e-7) and on_circle(b, c1, 1e-7)):
                    yield ("outer-touch", "outer tangent %r does not start on %r and end on %r" % (s, c0, c1))
                    break
                n0_ = abs((a[0] - c0[0]) * dv[0] + (a[1] - c0[1]) * dv[1])
                n1_ = abs((b[0] - c1[0]) * dv[0] + (b[1] - c1[1]) * dv[1])
                if max(n0_, n1_) > 1e-6 * max(1.0, math.hypot(*dv) * max(c0[2], c1[2])):
                    yield ("outer-tangent", "outer segment %r is not perpendicular to the radii at its ends" % (s,))
                    break
    elif k == "c11.line":
        c0, a, b = c["c0"], c["a"], c["b"]
        dv = [b[0] - a[0], b[1] - a[1]]
        tc = ((c0[0] - a[0]) * dv[0] + (c0[1] - a[1]) * dv[1]) / (dv[0] ** 2 + dv[1] ** 2)
        foot = [a[0] + dv[0] * tc, a[1] + dv[1] * tc]
        dd = dist(foot, c0)
        for t in r["ts"]:
            q = [a[0] + dv[0] * t, a[1] + dv[1] * t]
            if not on_circle(q, c0, 2e-5):
                yield ("line-on-circle", "line parameter %r gives %r which is not on circle %r" % (t, q, c0))
                break
        want = 0 if dd > c0[2] + 1e-9 else (2 if dd < c0[2] - 1e-9 else None)
        if want is not None and len(r["ts"]) != want:
            yield ("line-count", "%d line/circle intersections, distance to centre %r, radius %r" % (len(r["ts"]), dd, c0[2]))
        # a line constructed tangent (its distance from the centre is the radius up to rounding, on either side) meets the circle once:
        # the documented band of 1e-10 around tangency exists to absorb exactly that rounding
        if abs(dd - c0[2]) <= 1e-13 * max(1.0, c0[2]) and len(r["ts"]) != 1:
            yield ("line-tangent", "a tangent line (distance to the centre %r, radius %r) meets the circle in %d points" % (dd, c0[2], len(r["ts"])))
        for q in r["pts"]:
            t = ((q[0] - a[0]) * dv[0] + (q[1] - a[1]) * dv[1]) / (dv[0] ** 2 + dv[1] ** 2)
            if not (-1e-9 <= t <= 1 + 1e-9) or not on_circle(q, c0, 2e-5):
                yield ("segment-point", "segment/circle intersection %r is off the segment or the circle" % (q,))
                break
        # completeness on the segment: every crossing of the carrier line strictly inside the segment is reported
        if dd < c0[2] - 1e-9:
            h = math.sqrt(c0[2] ** 2 - dd ** 2) / math.sqrt(dv[0] ** 2 + dv[1] ** 2)
            for t in (tc - h, tc + h):
                if 1e-9 < t < 1 - 1e-9:
                    q = [a[0] + dv[0] * t, a[1] + dv[1] * t]
                    if not any(dist(q, w) <= 1e-6 * max(1.0, c0[2]) for w in r["pts"]):
                        yield ("segment-missed", "the segment %r - %r crosses circle %r at %r (parameter %r), reported intersections %r" % (a, b, c0, q, t, r["pts"]))
                        break
    elif k == "c11.arcpa":
        center, rad = [c["cx"], c["cy"]], c["r"]
        want0 = [center[0] + rad * math.cos(c["t"]), center[1] + rad * math.sin(c["t"])]
        if dist(r["start"], want0) > 1e-8 * max(1.0, rad) or r["a"] != c["a"]:
            yield ("arcpa-start", "circle_point_angle towards %r with sweep %r: the arc starts at %r with sweep %r, expected the point of the circle in that direction %r" % (c["p"], c["a"], r["start"], r["a"], want0))
        if dist(r["c"], center) > 0 or r["r"] != rad:
            yield ("arcpa-circle", "circle_point_angle(centre %r, radius %r) carries circle %r r %r" % (center, rad, r["c"], r["r"]))
        a0, a = r["a0"], r["a"]
        for f, pf, pl in zip(c["fs"], r["at_f"], r["at_l"]):
            want = [center[0] + rad * math.cos(a0 + a * f), center[1] + rad * math.sin(a0 + a * f)]
            if dist(pf, want) > 1e-8 * max(1.0, rad) or dist(pl, want) > 1e-8 * max(1.0, rad):
                yield ("arc-point-at", "point_at_fraction(%r) = %r, point_at_length = %r, expected %r" % (f, pf, pl, want))
                break
        yield from arc_checks("arc", r, center, rad, a0, a)
    elif k in ("c11.arc3", "c11.arc"):
        if k == "c11.arc3":
            center, rad = r["c"], r["r"]
            p0, p1, p2 = c["p0"], c["p1"], c["p2"]
            tol = 1e-7 * max(1.0, rad)
            if dist(r["start"], p0) > tol or dist(r["end"], p2) > tol:
                yield ("arc3-ends", "three-point arc starts at %r / ends at %r, points are %r / %r" % (r["start"], r["end"], p0, p2))
            if (r["a"] > 0) != (c["sweep"] > 0):
                yield ("arc3-sign", "three-point arc sweep %r, the points were generated with sweep %r" % (r["a"], c["sweep"]))
            elif abs(r["a"] - c["sweep"]) > 1e-6:
                yield ("arc3-sweep", "three-point arc sweep %r, generated %r" % (r["a"], c["sweep"]))
            # passes through the middle point: its angle lies inside the sweep
            t1 = math.atan2(p1[1] - center[1], p1[0] - center[0])
            rel = math.fmod(t1 - r["a0"], 2 * PI)
            if r["a"] > 0 and rel < 0:
                rel += 2 * PI
            if r["a"] < 0 and rel > 0:
                rel -= 2 * PI
            if abs(rel) > abs(r["a"]) + 1e-7:
                yield ("arc3-through", "the middle point is not on the three-point arc (relative angle %r, sweep %r)" % (rel, r["a"]))
        else:
            center, rad = [c["cx"], c["cy"]], c["r"]
        a0, a = r["a0"], r["a"]
        for f, pf, pl in zip(c["fs"], r["at_f"], r["at_l"]):
            want = [center[0] + rad * math.cos(a0 + a * f), center[1] + rad * math.sin(a0 + a * f)]
            if dist(pf, want) > 1e-8 * max(1.0, rad) or dist(pl, want) > 1e-8 * max(1.0, rad):
                yield ("arc-point-at", "point_at_fraction(%r) = %r, point_at_length = %r, expected %r" % (f, pf, pl, want))
                break
        yield from arc_checks("arc", r, center, rad, a0, a)
