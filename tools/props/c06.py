"""C06  Line-polyline intersection search is complete and sound."""
import math
import common as C
from common import Some, Nat, Raw, opt, coq

LEVEL = "proof"
COQ_IMPORTS = ["Tie.C06"]
RULE = ("polylines of 2..60 vertices (random, closed loops, grids with axis-parallel edges, repeated vertices); lines given as rays with "
        "the origin before, inside and beyond the curve (negative parameters), aimed at vertices, along edges, axis-parallel, nearly parallel to "
        "an edge, zero direction; boxes and lines for the pruning test: random, degenerate (zero extent), touching at corners/edges, zero "
        "direction components. distinct = distinct (tag, input)")
TRUSTED_BASE = [
    "Coq 8.16.1 kernel and vm_compute",
    "translator tools/rs2v.py: intersection_param regenerated from src/geom2/line2.rs every run and proved equal to the model's by reflexivity",
    "hand-written model coq/Model/Intersect.v tied by differential correspondence Tie/C06.v (per-edge results, sorted de-duplicated list, spanning ray, maximum, farthest vertex, pruning test lane)",
    "hook geom2::polyline2::verif::slab_hit (feature verif) exposes one lane of the private cast_ray",
    "parry's bounding volume tree construction (every leaf box contains its edge, every node box its children) is assumed; its effect is checked end to end on every case: accelerated result = per-edge scan",
]
ASSUMPTIONS = [
    "theorems over exact reals; in binary64 the pruning test carries a relative slack of 8 ulp (fix for D18) and is compared lane by lane with the model",
    "hits closer than 1e-8 in parameter are merged by the code; completeness is up to that merge",
]


# translator tie: intersection_param is regenerated from src/geom2/line2.rs on every run and must be convertible with the model
SPECS = [dict(rust="src/geom2/line2.rs", gen="Line2", model="Model.Intersect", fns=["intersection_param"]),
         # the per-edge test: a polyline is read as its vertex list, parry's Ray as (origin, direction), and intersect_rays as
         # intersection_param on the two rays (line2.rs, one line)
         dict(rust="src/geom2/polyline2.rs", gen="Polyline2", model="Model.Intersect", types="Model.Types Model.Intersect", fns=[],
              extra_structs={"Ray": [("origin", "Point2"), ("dir", "Vector2")]}, type_map={"Polyline": "(list (num * num)%type)"},
              method_map={"Polyline.vertices": ["{0}", "Vec<Point2>"]},
              call_map={"Ray::new": "(mk_Ray {0} {1})",
                        "intersect_rays": "(intersection_param (Ray_origin {0}) (Ray_dir {0}) (Ray_origin {1}) (Ray_dir {1}))"},
              call_ty={"Ray::new": "Ray", "intersect_rays": "Option<(f64, f64)>"},
              stmts={"ray_intersect_with_edge":
                     "forall (N : EG.Num.Num.Num) line (ray : @Ray N) i, @{G}.ray_intersect_with_edge N line ray i = "
                     "@{M}.ray_edge N (Ray_origin ray) (Ray_dir ray) (nth i line (nofZ 0, nofZ 0)) (nth (S i) line (nofZ 0, nofZ 0))"})]


def translate():
    return C.translator_tie(SPECS)


def rnd_poly(rng):
    n = rng.choice([2, 3, 5, 12, 30, 60])
    kind = rng.choice(["random", "random", "loop", "grid", "repeat"])
    if kind == "loop":
        n = max(n, 4)
        pts = [[3 * math.cos(2 * math.pi * i / (n - 1)) * rng.uniform(0.7, 1.3), 3 * math.sin(2 * math.pi * i / (n - 1)) * rng.uniform(0.7, 1.3)] for i in range(n - 1)]
        pts.append(list(pts[0]))
    elif kind == "grid":
        pts = [[float(rng.randint(-4, 4)), float(rng.randint(-4, 4))]]
        while len(pts) < n:
            p = list(pts[-1])
            j = rng.randrange(2)
            p[j] += rng.choice([-2.0, -1.0, 1.0, 2.0])
            pts.append(p)
    else:
        pts = [[rng.uniform(-5, 5), rng.uniform(-5, 5)] for _ in range(n)]
        if kind == "repeat" and n > 3:
            pts[rng.randrange(1, n)] = list(pts[0])
    return pts


def gen_ray(rng):
    pts = rnd_poly(rng)
    n = len(pts)
    kind = rng.choice(["random", "vertex", "vertex", "edge", "axis", "near_parallel", "inside", "zero", "two_vertices", "lattice"])
    o = [rng.uniform(-8, 8), rng.uniform(-8, 8)]
    if kind == "lattice":
        # small integer coordinates and a line through a vertex (often a free end): every product and difference in
        # ray_intersect_with_edge is exact and the edge parameter of a vertex pass is exactly 0 or 1, so even free ends are decided
        n = rng.choice([2, 3, 5])
        pts, seen = [], set()
        while len(pts) < n:
            q = (rng.randint(-9, 9), rng.randint(-9, 9))
            if q not in seen:
                seen.add(q)
                pts.append([float(q[0]), float(q[1])])
        v = pts[rng.choice([0, n - 1, rng.randrange(n)])]
        d = [float(rng.randint(-4, 4)), float(rng.randint(-4, 4))]
        if d == [0.0, 0.0]:
            d = [1.0, 2.0]
        m = rng.choice([0, 1, -2, 3])
        return {"k": "c06.ray", "pts": pts, "o": [v[0] - m * d[0], v[1] - m * d[1]], "d": d, "kind": kind}
    if kind == "random":
        d = [rng.uniform(-1, 1), rng.uniform(-1, 1)]
    elif kind == "vertex":
        v = pts[rng.randrange(n)]
        s = rng.choice([1.0, 0.5, -1.0, 3.0])
        d = [(v[0] - o[0]) * s, (v[1] - o[1]) * s]
    elif kind == "two_vertices":
        a, b = pts[rng.randrange(n)], pts[rng.randrange(n)]
        o = [a[0] - 2 * (b[0] - a[0]), a[1] - 2 * (b[1] - a[1])]
        d = [b[0] - a[0], b[1] - a[1]]
    elif kind == "edge":
        i = rng.randrange(n - 1)
        d = [pts[i + 1][0] - pts[i][0], pts[i + 1][1] - pts[i][1]]
        o = [pts[i][0] - d[0] * rng.choice([0.0, 1.5]), pts[i][1] - d[1] * rng.choice([0.0, 1.5])]
    elif kind == "axis":
        d = rng.choice([[1.0, 0.0], [0.0, 1.0], [-2.0, 0.0], [0.0, -0.5]])
        if rng.random() < 0.5:
            v = pts[rng.randrange(n)]
            o = [v[0] - 3 * d[0], v[1] - 3 * d[1]]
    elif kind == "near_parallel":
        i = rng.randrange(n - 1)
        e = [pts[i + 1][0] - pts[i][0], pts[i + 1][1] - pts[i][1]]
        eps = rng.choice([1e-6, 1e-10, 1e-13])
        d = [e[0] - eps * e[1], e[1] + eps * e[0]]
    elif kind == "inside":
        i = rng.randrange(n - 1)
        f = rng.random()
        o = [pts[i][0] + f * (pts[i + 1][0] - pts[i][0]), pts[i][1] + f * (pts[i + 1][1] - pts[i][1])]
        d = [rng.uniform(-1, 1), rng.uniform(-1, 1)]
    else:
        d = [0.0, 0.0]
    return {"k": "c06.ray", "pts": pts, "o": o, "d": d, "kind": kind}


def gen_param(rng):
    a0, b0 = [rng.uniform(-5, 5), rng.uniform(-5, 5)], [rng.uniform(-5, 5), rng.uniform(-5, 5)]
    ad = [rng.uniform(-2, 2), rng.uniform(-2, 2)]
    r = rng.random()
    if r < 0.2:
        bd = [ad[0] * 2, ad[1] * 2]
    elif r < 0.4:
        e = rng.choice([1e-6, 1e-12, 1e-13])
        bd = [ad[0] - e * ad[1], ad[1] + e * ad[0]]
    else:
        bd = [rng.uniform(-2, 2), rng.uniform(-2, 2)]
    return {"k": "c06.param", "a0": a0, "ad": ad, "b0": b0, "bd": bd}


def gen_slab(rng):
    lo = [rng.uniform(-5, 5), rng.uniform(-5, 5)]
    ext = [rng.choice([0.0, rng.uniform(0, 3)]), rng.choice([0.0, rng.uniform(0, 3)])]
    hi = [lo[0] + ext[0], lo[1] + ext[1]]
    kind = rng.choice(["random", "corner", "corner", "edge", "zero_comp", "miss", "inside"])
    o = [rng.uniform(-8, 8), rng.uniform(-8, 8)]
    d = [rng.uniform(-1, 1), rng.uniform(-1, 1)]
    if kind == "corner":
        cnr = [rng.choice([lo[0], hi[0]]), rng.choice([lo[1], hi[1]])]
        s = rng.choice([1.0, -0.7, 2.5])
        d = [(cnr[0] - o[0]) * s, (cnr[1] - o[1]) * s]
    elif kind == "edge":
        d = rng.choice([[1.0, 0.0], [0.0, -2.0]])
        o = [lo[0] - 2.0, rng.choice([lo[1], hi[1]])] if d[1] == 0.0 else [rng.choice([lo[0], hi[0]]), hi[1] + 3.0]
    elif kind == "zero_comp":
        j = rng.randrange(2)
        d[j] = rng.choice([0.0, -0.0])
        if rng.random() < 0.5:
            o[j] = rng.choice([lo[j], hi[j], (lo[j] + hi[j]) / 2])
    elif kind == "inside":
        o = [(lo[0] + hi[0]) / 2, (lo[1] + hi[1]) / 2]
    return {"k": "c06.slab", "mins": lo, "maxs": hi, "o": o, "d": d, "kind": kind}


def corpus():
    # D18 witness shape: a ray aimed exactly at a vertex
    pts = [[0.0, 0.0], [1.0, 2.0], [3.0, 1.0], [4.0, 4.0], [6.0, 0.5]]
    yield {"k": "c06.ray", "pts": pts, "o": [-2.0, -3.0], "d": [5.0, 4.0], "kind": "vertex"}
    yield {"k": "c06.ray", "pts": pts, "o": [0.0, 1.5], "d": [1.0, 0.0], "kind": "axis"}


def generate(rng, tier):
    n = 150 if tier == "quick" else 2500
    out = []
    for _ in range(n):
        out += [gen_ray(rng), gen_ray(rng), gen_param(rng), gen_slab(rng), gen_slab(rng)]
    return out


def tag(c, r):
    k = c["k"]
    if k == "c06.ray":
        return "%s:%s:%d" % (k, c["kind"], min(len(r["fast"]), 4))
    if k == "c06.slab":
        return "%s:%s:%s" % (k, c["kind"], r["hit"])
    return "%s:%s" % (k, "none" if r["r"] is None else "some")


def T(p):
    return tuple(float(x) for x in p)


def coq_check(c, r):
    k = c["k"]
    if k == "c06.ray":
        if len(c["pts"]) > 40:
            pass
        sp = r["span"]
        return "check_ray %s %s %s %s %s %s %s %s" % (
            coq([T(p) for p in c["pts"]]), coq(T(c["o"])), coq(T(c["d"])), coq([t for t, _ in r["fast"]]),
            coq([opt(t) for t in r["naive"]]), coq(opt(None if sp is None else (T(sp["o"]), T(sp["d"])))), coq(opt(r["max"])), coq(r["far"]))
    if k == "c06.param":
        return "check_param %s %s %s %s %s" % (coq(T(c["a0"])), coq(T(c["ad"])), coq(T(c["b0"])), coq(T(c["bd"])),
                                              coq(opt(None if r["r"] is None else (r["r"][0], r["r"][1]))))
    if k == "c06.slab":
        return "check_slab %s %s %s %s %s" % (coq(T(c["o"])), coq(T(c["d"])), coq(T(c["mins"])), coq(T(c["maxs"])), coq(bool(r["hit"])))
    return None


# ------------------------------------------------------------------ oracles

def seg_dist(p, a, b):
    v = [y - x for x, y in zip(a, b)]
    w = [y - x for x, y in zip(a, p)]
    vv = sum(x * x for x in v)
    t = 0.0 if vv == 0 else max(0.0, min(1.0, sum(x * y for x, y in zip(v, w)) / vv))
    return math.dist(p, [x + t * y for x, y in zip(a, v)])


def edge_hit(o, d, v0, v1):
    """independent per-edge intersection (exact rationals where it matters): (t, state) with state 'hit', 'miss' or 'unsure'"""
    from fractions import Fraction as F
    ox, oy, dx, dy = map(F, (o[0], o[1], d[0], d[1]))
    ax, ay, bx, by = map(F, (v0[0], v0[1], v1[0], v1[1]))
    ex, ey = bx - ax, by - ay
    det = ex * dy - ey * dx
    if abs(det) < F(2, 10 ** 12):
        return None, ("miss" if abs(det) < F(1, 2 * 10 ** 12) else "unsure")
    rx, ry = ax - ox, ay - oy
    t0 = (ry * ex - rx * ey) / det
    t1 = (ry * dx - rx * dy) / det
    if 0 <= t1 <= 1:
        margin = min(t1, 1 - t1)
        # exactly through an end point of the edge: "vertex" (the neighbouring edge may be the one that reports it)
        return float(t0), ("hit" if margin > F(1, 10 ** 9) else ("vertex0" if t1 == 0 else "vertex1" if t1 == 1 else "unsure"))
    return None, ("miss" if min(abs(t1), abs(t1 - 1)) > F(1, 10 ** 9) else "unsure")


def oracle(c, r):
    k = c["k"]
    if k == "c06.ray":
        pts, o, d = c["pts"], c["o"], c["d"]
        fast, naive = r["fast"], r["naive"]
        scale = max(1.0, max(abs(x) for p in pts for x in p), abs(o[0]), abs(o[1]))
        ts = [t for t, _ in fast]
        what = "ray_intersections(origin %r, dir %r) on %d vertices" % (o, d, len(pts))
        if any(b < a for a, b in zip(ts, ts[1:])):
            yield ("hits-sorted", what + ": parameters %r not ascending" % (ts,))
        if any(abs(b - a) < 1e-8 for a, b in zip(ts, ts[1:])):
            yield ("hits-duplicate", what + ": parameters %r contain a pair closer than 1e-8" % (ts,))
        dn = math.hypot(d[0], d[1])
        for t, i in fast:
            p = [o[0] + t * d[0], o[1] + t * d[1]]
            if not (0 <= i < len(pts) - 1) or seg_dist(p, pts[i], pts[i + 1]) > 1e-9 * scale * max(1.0, abs(t) * dn):
                yield ("hit-on-edge", what + ": reported (t=%r, edge %r) gives %r, which is not on that edge" % (t, i, p))
                break
        # completeness against an independent exhaustive computation
        for i in range(len(pts) - 1):
            t, st = edge_hit(o, d, pts[i], pts[i + 1])
            # a line exactly through a vertex shared by two edges must be reported (by either edge); at a free end of
            # the polyline the boundary value t1 = 0 or 1 is at the mercy of rounding and is not demanded
            exact = c.get("kind") == "lattice"       # integer data: the computed edge parameter of a vertex pass is exactly 0 or 1
            if exact and (st == "vertex0" and i == 0 or st == "vertex1" and i == len(pts) - 2) and not any(abs(t - f) <= 1e-8 + 1e-9 * abs(t) for f in ts):
                yield ("end-vertex-missed", what + ": the line passes exactly through the %s vertex of the polyline at t=%r (integer data, the edge parameter is exactly %d), reported parameters %r" % (
                    "first" if st == "vertex0" else "last", t, 0 if st == "vertex0" else 1, ts))
                break
            if (st == "vertex0" and i > 0 or st == "vertex1" and i < len(pts) - 2) and not any(abs(t - f) <= 1e-8 + 1e-9 * abs(t) for f in ts):
                yield ("vertex-pass-missed", what + ": the line passes exactly through the vertex shared by edges %d and %d at t=%r, reported parameters %r" % (
                    (i - 1, i, t, ts) if st == "vertex0" else (i, i + 1, t, ts)))
                break
            if st == "hit" and not any(abs(t - f) <= 1e-8 + 1e-9 * abs(t) for f in ts):
                yield ("hit-missed", what + ": edge %d is crossed at t=%r, reported parameters %r" % (i, t, ts))
                break
            if st == "miss" and naive[i] is not None:
                yield ("hit-spurious", what + ": edge %d is not crossed, per-edge test reports %r" % (i, naive[i]))
                break
        # accelerated search vs the code's own per-edge scan
        for i, t in enumerate(naive):
            if t is not None and not any(abs(t - f) < 1e-8 for f in ts):
                yield ("fast-vs-naive", what + ": per-edge scan finds t=%r on edge %d, accelerated search reports %r" % (t, i, ts))
                break
        sp = r["span"]
        if (sp is not None) != (len(fast) == 2):
            yield ("spanning-iff-two", what + ": %d crossings, spanning ray %s" % (len(fast), "produced" if sp else "absent"))
        if sp is not None and len(fast) == 2:
            e0 = [o[0] + ts[0] * d[0], o[1] + ts[0] * d[1]]
            e1 = [o[0] + ts[1] * d[0], o[1] + ts[1] * d[1]]
            end = [sp["o"][0] + sp["d"][0], sp["o"][1] + sp["d"][1]]
            if math.dist(sp["o"], e0) > 1e-9 * scale or math.dist(end, e1) > 1e-9 * scale:
                yield ("spanning-ends", what + ": spanning ray %r..%r, crossings at %r and %r" % (sp["o"], end, e0, e1))
            if sp["d"][0] * d[0] + sp["d"][1] * d[1] <= 0 or abs(sp["d"][0] * d[1] - sp["d"][1] * d[0]) > 1e-9 * scale * dn:
                yield ("spanning-direction", what + ": spanning direction %r" % (sp["d"],))
        if (r["max"] is None) != (not ts) or (ts and r["max"] != ts[-1]):
            yield ("max-intersection", what + ": max_intersection %r, parameters %r" % (r["max"], ts))
        if dn > 0:
            far = max(((p[0] - o[0]) * d[0] + (p[1] - o[1]) * d[1]) / dn for p in pts)
            if abs(far - r["far"]) > 1e-9 * scale:
                yield ("farthest", what + ": farthest projected vertex %r, exhaustive %r" % (r["far"], far))
        cv = r["curve"]
        if cv is not None:
            if cv["hits"] != [[t, i] for t, i in fast]:
                yield ("curve-vs-polyline", what + ": Curve2::ray_intersections %r differs from the polyline search %r" % (cv["hits"], fast))
            if (cv["span"] is None) != (sp is None):
                yield ("curve-vs-polyline", what + ": Curve2::try_create_spanning_ray disagrees with spanning_ray")
            if cv["sp"] is not None and dn > 0:
                # the same search with the direction normalised (a rounded, hence slightly different line): every reported
                # distance is a point of the polyline, and every crossing strictly inside an edge is reported; passes through
                # vertices are at the mercy of the rounded direction and are not compared
                for a in cv["sp"]:
                    q = [o[0] + a * d[0] / dn, o[1] + a * d[1] / dn]
                    if min(seg_dist(q, pts[i], pts[i + 1]) for i in range(len(pts) - 1)) > 1e-9 * scale * max(1.0, abs(a)):
                        yield ("surface-point-intersection", what + ": distance %r along the unit normal gives %r, which is not on the polyline" % (a, q))
                        break
                for i in range(len(pts) - 1):
                    t, st = edge_hit(o, d, pts[i], pts[i + 1])
                    if st == "hit" and not any(abs(a - t * dn) <= 1e-8 + 1e-9 * scale * max(1.0, abs(t * dn)) for a in cv["sp"]):
                        yield ("surface-point-intersection", what + ": edge %d is crossed at distance %r along the unit normal, reported distances %r" % (i, t * dn, cv["sp"]))
                        break
    elif k == "c06.slab":
        # soundness of pruning: if the line meets the box (exactly), the test must say so
        from fractions import Fraction as F
        o, d, lo, hi = c["o"], c["d"], c["mins"], c["maxs"]
        tlo, thi = None, None
        meets = True
        for j in range(2):
            oj, dj, l, h = F(o[j]), F(d[j]), F(lo[j]), F(hi[j])
            if dj == 0:
                if not (l <= oj <= h):
                    meets = False
            else:
                a, b = (l - oj) / dj, (h - oj) / dj
                a, b = min(a, b), max(a, b)
                tlo = a if tlo is None else max(tlo, a)
                thi = b if thi is None else min(thi, b)
        if meets and tlo is not None and tlo > thi:
            meets = False
        if meets and not r["hit"]:
            yield ("prune-sound", "the line (origin %r, dir %r) meets the box %r..%r but the pruning test discards it" % (o, d, lo, hi))
    elif k == "c06.param":
        rr = r["r"]
        if rr is not None:
            a0, ad, b0, bd = c["a0"], c["ad"], c["b0"], c["bd"]
            pa = [a0[0] + rr[0] * ad[0], a0[1] + rr[0] * ad[1]]
            pb = [b0[0] + rr[1] * bd[0], b0[1] + rr[1] * bd[1]]
            det = abs(bd[0] * ad[1] - bd[1] * ad[0])
            if math.dist(pa, pb) > 1e-12 * max(1.0, abs(rr[0]), abs(rr[1])) * 100 / min(1.0, det):
                yield ("param-point", "intersection_param gives different points on the two lines: %r vs %r" % (pa, pb))
