"""C08  Alignment parameters round-trip and Jacobians are true derivatives."""
import math
import common as C
from common import Some, Nat, Raw, opt, coq

LEVEL = "proof"
COQ_IMPORTS = ["Tie.C08"]
RULE = ("initial isometries with any angle(s) and translations to 1e3, rotation centres at the origin, near the data and up to 1e3 away; "
        "set() histories of 0-3 parameter vectors (pure translations, pure rotations, mixed, repeated); Euler triples over the full range "
        "with pitch at, and 1e-9..1e-3 from, +-pi/2; test points and reference surface points in general position, on the surface, "
        "coincident. distinct = distinct (tag, input)")
TRUSTED_BASE = [
    "Coq 8.16.1 kernel and vm_compute",
    "hand-written model coq/Model/AlignParams.v (explicit rotation matrices) tied by differential correspondence Tie/C08.v: every accessor of RcParams2/RcParams3 and every RotationMatrices field after every set(), all four Jacobian rows",
    "hook geom2::align2::verif re-exports the private point_surface_jacobian (feature verif)",
    "nalgebra's UnitQuaternion::from_euler_angles / to_rotation_matrix / UnitComplex are compared to the model's matrices per case (1e-9)",
    "central finite differences on the implementation as the search oracle",
]
ASSUMPTIONS = [
    "theorems over exact reals with Coquelicot derivatives (is_derive)",
    "inside the gimbal band |sin(pitch)| > 1 - 1e-15 the Euler round trip is exact only up to sqrt(2e-15)",
]


def rnd_e(rng):
    """Euler triple with emphasis on the gimbal region"""
    r = rng.random()
    if r > 0.92:
        # nearly aligned already: angles of 1e-10 .. 1e-6 rad (cos of the half angle rounds to 1)
        e = [rng.choice([0.0, 1, -1]) * 10.0 ** rng.uniform(-10, -6) for _ in range(3)]
        return e if any(e) else [3e-9, 0.0, 0.0]
    if r < 0.35:
        ry = rng.choice([1, -1]) * (math.pi / 2 - rng.choice([0.0, 1e-12, 1e-9, 1e-7, 1e-5, 1e-4, 1e-3]))
    else:
        ry = rng.uniform(-1.5, 1.5)
    return [rng.uniform(-3.1, 3.1), ry, rng.uniform(-3.1, 3.1)]


# translator tie: align3/rotations.rs to_wpr (the Euler extraction with its two gimbal branches) is regenerated on every run and proved
# (by conversion) to be the model's to_wpr at the source's EPSILON
SPECS = [dict(rust="src/geom3/align3/rotations.rs", gen="Rotations", model="Model.AlignParams", types="Model.Types Model.AlignParams", fns=[],
              type_map={"Matrix3<f64>": "(@M3 N)"},
              stmts={"to_wpr": "forall (N : EG.Num.Num.Num) m, @{G}.to_wpr N m = @{M}.to_wpr N (@EG.Num.Num.nlit N 1%Z (-15)%Z) m"})]

# the Jacobian rows: which point the lever arm is taken from, the sign factor, the 2D row in full; RcParams2 / RcParams3 are read as
# the model's state records (their current_rc() as rc2_current / rc3_current), a SurfacePoint as (point, normal), and the shared
# 3D core point_plane_core as the model's plane_core on the surface normal and the state's rotation matrices
SPECS.append(dict(rust="src/geom3/align3/jacobian.rs", gen="Jac3", model="Model.AlignParams", types="Model.Types Model.AlignParams", fns=[],
                  extra_structs={"SurfacePoint3": [("point", "Point3"), ("normal", "UnitVec3")]},
                  type_map={"RcParams3": "(@rc3 N)", "T3Storage": "((num * num * num) * (num * num * num))%type"},
                  method_map={"RcParams3.current_rc": ["(rc3_current {0})", "Point3"],
                              "SurfacePoint3.scalar_projection": ["(dot3 (SurfacePoint3_normal {0}) (sub3 {1} (SurfacePoint3_point {0})))", "f64"]},
                  call_map={"point_plane_core": "(plane_core {0} (SurfacePoint3_normal {1}) {2} (rc3_rot {3}))"},
                  stmts={"point_plane_jacobian": "forall (N : EG.Num.Num.Num) p (c : @SurfacePoint3 N) st, @{G}.point_plane_jacobian N p c st = "
                                                 "@{M}.point_plane_jacobian N p (SurfacePoint3_point c) (SurfacePoint3_normal c) st",
                         "point_plane_jacobian_rev": "forall (N : EG.Num.Num.Num) p (c : @SurfacePoint3 N) st, @{G}.point_plane_jacobian_rev N p c st = "
                                                     "@{M}.point_plane_jacobian_rev N p (SurfacePoint3_point c) (SurfacePoint3_normal c) st"}))
SPECS.append(dict(rust="src/geom2/align2/jacobian.rs", gen="Jac2", model="Model.AlignParams", types="Model.Types Model.AlignParams", fns=[],
                  extra_structs={"SurfacePoint2": [("point", "Point2"), ("normal", "UnitVec2")]},
                  type_map={"RcParams2": "(@rc2 N)", "T2Storage": "(num * num * num)%type"},
                  method_map={"RcParams2.current_rc": ["(rc2_current {0})", "Point2"]}, call_map={"T2Storage::new": "(mk3 {0} {1} {2})"},
                  stmts={"point_surface_jacobian": "forall (N : EG.Num.Num.Num) p (s : @SurfacePoint2 N) st, @{G}.point_surface_jacobian N p s st = "
                                                   "@{M}.point_surface_jacobian N p (SurfacePoint2_normal s) st"}))


def translate():
    return C.translator_tie(SPECS)


def gen_rc2(rng):
    s = rng.choice([1.0, 10.0, 1000.0])
    sets = []
    for _ in range(rng.randint(0, 3)):
        kind = rng.choice(["t", "r", "m"])
        sets.append([rng.uniform(-2, 2) if kind != "r" else 0.0, rng.uniform(-2, 2) if kind != "r" else 0.0, rng.uniform(-3, 3) if kind != "t" else 0.0])
    p = [rng.uniform(-5, 5), rng.uniform(-5, 5)]
    return {"k": "c08.rc2", "init": [rng.uniform(-1, 1) * s, rng.uniform(-1, 1) * s, rng.choice([0.0, math.pi, rng.uniform(-3.1, 3.1)])],
            "rc": [rng.choice([0.0, rng.uniform(-5, 5), rng.uniform(-1000, 1000)]) for _ in range(2)], "sets": sets,
            "p": p, "sp": [p[0] + rng.uniform(-1, 1), p[1] + rng.uniform(-1, 1)], "sn": [rng.uniform(-1, 1), rng.uniform(0.05, 1)]}


def gen_rc3(rng):
    s = rng.choice([1.0, 10.0, 1000.0])
    sets = []
    for _ in range(rng.randint(0, 3)):
        kind = rng.choice(["t", "r", "m"])
        t = [rng.uniform(-2, 2) if kind != "r" else 0.0 for _ in range(3)]
        e = rnd_e(rng) if kind != "t" else [0.0, 0.0, 0.0]
        if kind != "t" and rng.random() < 0.3:
            e[1] = rng.choice([-1, 1]) * rng.uniform(math.pi / 2 + 0.05, 3.1)      # a solver step may take the pitch anywhere: Rx Ry Rz for every triple
        sets.append(t + e)
    p = [rng.uniform(-5, 5) for _ in range(3)]
    off = rng.choice([1.0, 1.0, 1e-3, 1e-5, 1e-6, 1e-7, 0.0])      # test point and reference: far, near (a converged alignment), coincident
    return {"k": "c08.rc3", "init": [rng.uniform(-1, 1) * s for _ in range(3)] + rnd_e(rng),
            "rc": [rng.choice([0.0, rng.uniform(-5, 5), rng.uniform(-1000, 1000)]) for _ in range(3)], "sets": sets, "p": p,
            "sp": [a + rng.uniform(-1, 1) * off for a in p], "sn": [rng.uniform(-1, 1), rng.uniform(-1, 1), rng.uniform(0.05, 1)],
            "cp": [a + rng.uniform(-1, 1) * off for a in p]}


def gen_euler(rng):
    return {"k": "c08.euler", "r": rnd_e(rng)}


def corpus():
    yield {"k": "c08.euler", "r": [0.3, math.pi / 2 - 1e-4, -0.7]}      # D17 witness: inside the old 1e-8 band
    yield {"k": "c08.rc3", "init": [1.0, 2.0, 3.0, 0.3, math.pi / 2 - 1e-4, -0.7], "rc": [1.0, 1.0, 1.0], "sets": [], "p": [1.0, 2.0, 0.5],
           "sp": [1.5, 2.5, 0.0], "sn": [0.0, 0.0, 1.0], "cp": [1.0, 2.5, 0.5]}


def generate(rng, tier):
    n = 110 if tier == "quick" else 1500
    out = []
    for _ in range(n):
        out += [gen_rc2(rng), gen_rc3(rng), gen_euler(rng)]
    return out


def tag(c, r):
    k = c["k"]
    if k == "c08.euler":
        g = abs(abs(c["r"][1]) - math.pi / 2)
        return "%s:%s" % (k, "gimbal" if g < 2e-3 else "regular")
    return "%s:h%d" % (k, len(c["sets"]))


def T(p):
    return tuple(float(x) for x in p)


def M(m):
    return tuple(T(row) for row in m)


def iso3_rows(i):
    return tuple((i["x"][j], i["y"][j], i["z"][j]) for j in range(3))


def coq_check(c, r):
    k = c["k"]
    if k == "c08.rc2":
        obs = []
        for st, j, mv in zip(r["states"], r["jac"], r["moved"]):
            t, i = st["transform"], st["inverse"]
            obs.append(((t["c"], t["s"], T(t["t"])), (i["c"], i["s"], T(i["t"])), T(st["current_rc"]), T(j), T(mv)))
        return "check_rc2 %s %s %s %s %s %s %s %s" % (coq(r["init"]["c"]), coq(r["init"]["s"]), coq(T(r["init"]["t"])), coq(T(c["rc"])), coq(T(c["p"])),
                                                     coq(T(r["sn"])), coq([T(x) for x in c["sets"]]), coq(obs))
    if k == "c08.rc3":
        obs = []
        for st, j, mv in zip(r["states"], r["jac"], r["moved"]):
            t, i = st["transform"], st["inverse"]
            jj = tuple((T(j[n][:3]), T(j[n][3:])) for n in ("plane", "rev", "point"))
            obs.append(((iso3_rows(t), T(t["t"])), (iso3_rows(i), T(i["t"])), T(st["current_rc"]), M(st["q"]), tuple(M(x) for x in st["d"]), tuple(M(x) for x in st["rd"]), jj, T(mv)))
        sets = [(T(x[:3]), T(x[3:])) for x in c["sets"]]
        return "check_rc3 %s %s %s %s %s %s %s %s %s" % (coq(iso3_rows(r["init"])), coq(T(r["init"]["t"])), coq(T(c["rc"])), coq(T(c["p"])), coq(T(c["sp"])),
                                                        coq(T(r["sn"])), coq(T(c["cp"])), coq(sets), coq(obs))
    if k == "c08.euler":
        return "check_euler %s %s %s %s %s" % (coq(T(c["r"])), coq(M(r["q"])), coq(tuple(M(x) for x in r["d"])), coq(tuple(M(x) for x in r["rd"])), coq(M(r["q2"])))
    return None


# ------------------------------------------------------------------ oracles

def rx(a):
    c, s = math.cos(a), math.sin(a)
    return [[1, 0, 0], [0, c, -s], [0, s, c]]


def ry(a):
    c, s = math.cos(a), math.sin(a)
    return [[c, 0, s], [0, 1, 0], [-s, 0, c]]


def rz(a):
    c, s = math.cos(a), math.sin(a)
    return [[c, -s, 0], [s, c, 0], [0, 0, 1]]


def mm(a, b):
    return [[sum(a[i][k] * b[k][j] for k in range(3)) for j in range(3)] for i in range(3)]


def euler(e):
    return mm(mm(rx(e[0]), ry(e[1])), rz(e[2]))


def mdiff(a, b):
    return max(abs(a[i][j] - b[i][j]) for i in range(3) for j in range(3))


def mv(m, v):
    return [sum(m[i][j] * v[j] for j in range(3)) for i in range(3)]


def oracle(c, r):
    k = c["k"]
    if k == "c08.euler":
        e = c["r"]
        m = euler(e)
        if mdiff(m, r["q"]) > 1e-12:
            yield ("euler-matrix", "from_euler(%r): rotation differs from Rx*Ry*Rz by %r" % (e, mdiff(m, r["q"])))
        h = 1e-6
        for i in range(3):
            ep, em = list(e), list(e)
            ep[i] += h
            em[i] -= h
            fd = [[(a - b) / (2 * h) for a, b in zip(ra, rb)] for ra, rb in zip(euler(ep), euler(em))]
            if mdiff(fd, r["d"][i]) > 1e-8:
                yield ("euler-derivative", "from_euler(%r): d[%d] differs from the finite-difference derivative of the rotation matrix by %r" % (e, i, mdiff(fd, r["d"][i])))
                break
            # rd = d * R^T
            mt = [[m[j][i2] for j in range(3)] for i2 in range(3)]
            if mdiff(mm(r["d"][i], mt), r["rd"][i]) > 1e-12:
                yield ("euler-rd", "from_euler(%r): rd[%d] != d[%d] * R^T" % (e, i, i))
                break
        # converting the rotation to angles and back reproduces the rotation, gimbal lock included
        if mdiff(r["q2"], r["q"]) > 1e-6:
            yield ("euler-roundtrip", "from_rotation(from_euler(%r)) reconstructs the rotation with error %r" % (e, mdiff(r["q2"], r["q"])))
    elif k == "c08.rc3":
        init = r["init"]
        rows0 = [list(x) for x in iso3_rows(init)]
        ap = lambda rows, t, p: [sum(rows[i][j] * p[j] for j in range(3)) + t[i] for i in range(3)]
        st0 = r["states"][0]
        rows = [list(x) for x in iso3_rows(st0["transform"])]
        scale = 10 + max(abs(x) for x in c["rc"]) + max(abs(x) for x in init["t"])
        # away from the pole the Euler extraction is exact to rounding; within 1e-3 of it the pitch is ill-conditioned (1e-6)
        rt = 1e-6 if abs(abs(c["init"][4]) - math.pi / 2) < 2e-3 else 1e-11
        if mdiff(rows, rows0) > rt or max(abs(a - b) for a, b in zip(st0["transform"]["t"], init["t"])) > rt * scale:
            yield ("rc3-reproduces", "RcParams3::from_initial does not reproduce the initial isometry: rotation off by %r, translation %r vs %r (Euler %r)" % (
                mdiff(rows, rows0), st0["transform"]["t"], init["t"], c["init"][3:]))
        back = [list(x) for x in iso3_rows(r["back"])]
        if mdiff(back, rows0) > 1e-6:
            # nalgebra's euler_angles() near the pole: sin(pitch) one ulp short of 1 misses its gimbal branch
            gim = abs(abs(c["init"][4]) - math.pi / 2) < 1e-6
            yield ("param3-gimbal-roundtrip" if gim else "param-roundtrip",
                   "iso3_from_param(param_from_iso3(T)) differs from T by %r (Euler %r)" % (mdiff(back, rows0), c["init"][3:]))
        prev_x = None
        for n, st in enumerate(r["states"]):
            t, i = st["transform"], st["inverse"]
            tr = [list(x) for x in iso3_rows(t)]
            ir = [list(x) for x in iso3_rows(i)]
            q = ap(ir, i["t"], ap(tr, t["t"], c["p"]))
            if max(abs(a - b) for a, b in zip(q, c["p"])) > 1e-9 * scale:
                yield ("rc3-inverse", "state %d: inverse(transform(p)) = %r for p = %r" % (n, q, c["p"]))
            cur = ap(tr, t["t"], c["rc"])
            if max(abs(a - b) for a, b in zip(cur, st["current_rc"])) > 1e-9 * scale:
                yield ("rc3-current-rc", "state %d: current_rc %r but transform(rc) = %r" % (n, st["current_rc"], cur))
        # a pure-translation change of the parameters translates by that vector wherever the centre is
        xs = [st["x"] for st in r["states"]]
        for n in range(1, len(xs)):
            if xs[n][3:] == xs[n - 1][3:]:
                dv = [a - b for a, b in zip(xs[n][:3], xs[n - 1][:3])]
                mvd = [a - b for a, b in zip(r["moved"][n], r["moved"][n - 1])]
                if max(abs(a - b) for a, b in zip(dv, mvd)) > 1e-9 * scale:
                    yield ("rc3-translation", "parameter change %r moved the test point by %r" % (dv, mvd))
        # Jacobians against central finite differences of the residuals, at the last state
        st = r["states"][-1]
        x0 = st["x"]
        rcd = [a - b for a, b in zip(st["current_rc"], x0[:3])]      # = shift1 translation
        def transform(x, pnt):
            m = euler(x[3:])
            return [sum(m[i][j] * (pnt[j] - c["rc"][j]) for j in range(3)) + x[i] + rcd[i] for i in range(3)]
        def inv(x, pnt):
            m = euler(x[3:])
            v = [pnt[i] - x[i] - rcd[i] for i in range(3)]
            return [sum(m[j][i] * v[j] for j in range(3)) + c["rc"][i] for i in range(3)]
        p, spt, sn, cp = c["p"], c["sp"], r["sn"], c["cp"]
        q0 = inv(x0, p)
        def res_plane(x):
            mvp = transform(x, q0)
            return abs(sum(sn[i] * (mvp[i] - spt[i]) for i in range(3)))
        def res_rev(x):
            # the reference moves instead: residual of the fixed test point against the moved reference point/normal
            m = euler(x[3:]); m0 = euler(x0[3:])
            s0 = inv(x0, spt)
            ms = transform(x, s0)
            return abs(sum(sn[i] * (p[i] - ms[i]) for i in range(3)))
        def res_point(x):
            mvp = transform(x, q0)
            return math.dist(mvp, cp)
        j = r["jac"][-1]
        h = 1e-6
        d0 = sum(sn[i] * (p[i] - spt[i]) for i in range(3))
        lever0 = 1 + math.dist(p, st["current_rc"])
        # the residuals are absolute values / norms: differentiable only while the step cannot cross the kink
        checks = [("plane", res_plane, abs(d0) > 100 * h * lever0), ("point", res_point, math.dist(p, cp) > 1e-2 * lever0)]   # |p - c| has curvature lever^2 / |p - c|
        for name, f, ok in checks:
            if not ok:
                continue
            for i in range(6):
                xp, xm = list(x0), list(x0)
                xp[i] += h
                xm[i] -= h
                fd = (f(xp) - f(xm)) / (2 * h)
                lever = 1 + math.dist(p, st["current_rc"])
                if abs(fd - j[name][i]) > 1e-6 * lever * 10:
                    yield ("jacobian3-" + name, "%s Jacobian entry %d is %r, central finite difference of the residual %r (Euler %r)" % (name, i, j[name][i], fd, x0[3:]))
                    break
        # point-to-point, whatever the separation above the coincidence guard (1e-8): the translation entries are the unit vector from
        # the reference to the test point (the derivative of |p + t - c| in t), also for a well-converged pair
        sep = math.dist(p, cp)
        if sep > 1e-7:
            unit = [(p[i] - cp[i]) / sep for i in range(3)]
            if max(abs(j["point"][i] - unit[i]) for i in range(3)) > 1e-6 + 1e-9 * max(abs(x) for x in p) / sep:
                yield ("jacobian3-point", "point Jacobian translation entries %r for a test point %r from its reference: the derivative of the distance is the unit offset %r" % (j["point"][:3], sep, unit))
        # the reference-side variant: translation entries are the negated plane entries
        if abs(d0) > 1e-4 and max(abs(a + b) for a, b in zip(j["plane"][:3], j["rev"][:3])) > 1e-12:
            yield ("jacobian3-rev", "reference-side translation entries %r are not the negation of %r" % (j["rev"][:3], j["plane"][:3]))
    elif k == "c08.rc2":
        init = r["init"]
        st0 = r["states"][0]["transform"]
        scale = 10 + max(abs(x) for x in c["rc"]) + max(abs(x) for x in init["t"])
        if abs(st0["c"] - init["c"]) > 1e-9 or abs(st0["s"] - init["s"]) > 1e-9 or max(abs(a - b) for a, b in zip(st0["t"], init["t"])) > 1e-9 * scale:
            yield ("rc2-reproduces", "RcParams2::from_initial does not reproduce the initial isometry: %r vs %r" % (st0, init))
        rt = r["roundtrip"]
        want = [c["init"][0], c["init"][1], math.atan2(math.sin(c["init"][2]), math.cos(c["init"][2]))]
        if max(abs(a - b) for a, b in zip(rt, want)) > 1e-9 * (1 + abs(want[0]) + abs(want[1])) and abs(abs(want[2]) - math.pi) > 1e-9:
            yield ("param-roundtrip", "param_from_iso2(iso2_from_param(%r)) = %r" % (c["init"], rt))
        ap = lambda t, p: [t["c"] * p[0] - t["s"] * p[1] + t["t"][0], t["s"] * p[0] + t["c"] * p[1] + t["t"][1]]
        for n, st in enumerate(r["states"]):
            q = ap(st["inverse"], ap(st["transform"], c["p"]))
            if max(abs(a - b) for a, b in zip(q, c["p"])) > 1e-9 * scale:
                yield ("rc2-inverse", "state %d: inverse(transform(p)) = %r for p = %r" % (n, q, c["p"]))
            cur = ap(st["transform"], c["rc"])
            if max(abs(a - b) for a, b in zip(cur, st["current_rc"])) > 1e-9 * scale:
                yield ("rc2-current-rc", "state %d: current_rc %r but transform(rc) = %r" % (n, st["current_rc"], cur))
            if abs(st["rotation"]["c"] - st["transform"]["c"]) > 1e-12 or abs(st["rotation"]["s"] - st["transform"]["s"]) > 1e-12 or max(abs(x) for x in st["rotation"]["t"]) > 0:
                yield ("rc2-rotation", "state %d: rotation accessor %r vs transform %r" % (n, st["rotation"], st["transform"]))
        xs = [st["x"] for st in r["states"]]
        for n in range(1, len(xs)):
            if xs[n][2] == xs[n - 1][2]:
                dv = [a - b for a, b in zip(xs[n][:2], xs[n - 1][:2])]
                mvd = [a - b for a, b in zip(r["moved"][n], r["moved"][n - 1])]
                if max(abs(a - b) for a, b in zip(dv, mvd)) > 1e-9 * scale:
                    yield ("rc2-translation", "parameter change %r moved the test point by %r" % (dv, mvd))
        st = r["states"][-1]
        x0 = st["x"]
        rc, p, spt, sn = c["rc"], c["p"], c["sp"], r["sn"]
        def transform(x, q):
            cth, sth = math.cos(x[2]), math.sin(x[2])
            v = [q[0] - rc[0], q[1] - rc[1]]
            return [cth * v[0] - sth * v[1] + x[0] + rc[0], sth * v[0] + cth * v[1] + x[1] + rc[1]]
        cth, sth = math.cos(x0[2]), math.sin(x0[2])
        v = [p[0] - x0[0] - rc[0], p[1] - x0[1] - rc[1]]
        q0 = [cth * v[0] + sth * v[1] + rc[0], -sth * v[0] + cth * v[1] + rc[1]]
        f = lambda x: sum(sn[i] * (transform(x, q0)[i] - spt[i]) for i in range(2))
        h = 1e-6
        j = r["jac"][-1]
        for i in range(3):
            xp, xm = list(x0), list(x0)
            xp[i] += h
            xm[i] -= h
            fd = (f(xp) - f(xm)) / (2 * h)
            if abs(fd - j[i]) > 1e-6 * (1 + math.dist(p, st["current_rc"])) * 10:
                yield ("jacobian2", "2D Jacobian entry %d is %r, central finite difference %r" % (i, j[i], fd))
                break
