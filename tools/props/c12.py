"""C12  Mesh connectivity results are exact partitions and always terminate."""
import itertools
import math
import re
import os
import common as C
from common import Some, Nat, Raw, opt, coq

LEVEL = "proof"
COQ_IMPORTS = ["Tie.C12"]
HARNESS_SHARDS = 8
RULE = ("face lists: hand-written classes (disk grids, tubes, closed surfaces, multi-component, holes, vertex-only contacts, "
        "flipped faces, non-manifold), random subsets of grid triangulations with random flips, and in the thorough tier every "
        "face list over <= 5 vertices with <= 3 faces (up to ordering); voxel sets on small lattices incl. diagonal contacts; "
        "index-pair lists incl. loops, branches and repeated ends; each mesh case is run 3 times in-process (fresh "
        "RandomState per HashMap). trivial = empty input; distinct = distinct (tag, input)")
TRUSTED_BASE = [
    "Coq 8.16.1 kernel and vm_compute",
    "hand-written model coq/Model/MeshTopo.v (HashSet iteration = explicit pick oracle), tied by exact differential comparison (Tie/C12.v): edge table, face->edge map, boundary loops, chains compared exactly; patches and clusters as sets of sets under two different oracles",
    "box face table regenerated from src/geom3/mesh.rs on every run (Gen/MeshTables.v) and compared by reflexivity",
    "parry TriMesh::new keeps vertices and faces unchanged (checked on every case: harness echoes faces)",
]
ASSUMPTIONS = [
    "faces have three distinct vertex indices (parry rejects nothing here, engeom does not check it either)",
    "closedness of boundary loops is proved under the even-boundary-degree hypothesis, which the run checks on every generated mesh",
]


def translate():
    """Box face table: regenerate from the Rust source, compare with the model by reflexivity."""
    src = open(os.path.join(C.REPO, "src/geom3/mesh.rs")).read()
    items = []
    m = re.search(r"fn box_geom.*?let triangles = vec!\[(.*?)\];", src, re.S)
    gen_dir = os.path.join(C.COQ, "Gen")
    os.makedirs(gen_dir, exist_ok=True)
    if not m:
        return [("MeshTables.box_faces", False, "box_geom triangle table not found in src/geom3/mesh.rs")]
    tris = re.findall(r"\[\s*(\d+)\s*,\s*(\d+)\s*,\s*(\d+)\s*\]", m.group(1))
    mv = re.search(r"fn box_geom.*?let vertices = vec!\[(.*?)\];", src, re.S)
    verts = re.findall(r"Point3::new\(\s*([\w.]+)\s*,\s*([\w.]+)\s*,\s*([\w.]+)\s*\)", mv.group(1)) if mv else []

    def sel(tok, name):
        return "true" if tok == name else ("false" if tok == "0.0" else "BAD")
    txt = "From Coq Require Import List.\nImport ListNotations.\n"
    txt += "Definition box_faces := [%s].\n" % "; ".join("(%s, %s, %s)" % t for t in tris)
    txt += "Definition box_vertex_sel := [%s].\n" % "; ".join(
        "(%s, %s, %s)" % (sel(x, "width"), sel(y, "height"), sel(z, "depth")) for x, y, z in verts)
    with C.Lock("gen"):
        open(os.path.join(gen_dir, "MeshTables.v"), "w").write(txt)
        rc, out, err = C.run(["timeout", "120", "coqc", "-noglob", "-Q", C.COQ, "EG", os.path.join(gen_dir, "MeshTables.v")], cwd=C.COQ)
        if rc != 0:
            return [("MeshTables.box_faces", False, (err or out)[-300:]), ("MeshTables.box_vertex_sel", False, "")]
        for name in ("box_faces", "box_vertex_sel"):
            tp = os.path.join(gen_dir, "tie_MeshTables_%s.v" % name)
            open(tp, "w").write("From EG Require Import Model.MeshTopo Model.MeshGeom Gen.MeshTables.\n"
                                "Lemma tie : EG.Gen.MeshTables.%s = EG.Model.%s.%s.\nProof. reflexivity. Qed.\n"
                                % (name, "MeshTopo" if name == "box_faces" else "MeshGeom", name))
            rc, out, err = C.run(["timeout", "120", "coqc", "-noglob", "-Q", C.COQ, "EG", tp], cwd=C.COQ)
            items.append(("MeshTables." + name, rc == 0, "" if rc == 0 else "regenerated table differs from the model: " + (err or out)[-300:]))
    return items


# ------------------------------------------------------------------ mesh generators

def grid(nx, ny, flip_diag=False):
    faces = []
    def vid(i, j):
        return j * (nx + 1) + i
    for j in range(ny):
        for i in range(nx):
            a, b, c, d = vid(i, j), vid(i + 1, j), vid(i + 1, j + 1), vid(i, j + 1)
            if flip_diag and (i + j) % 2:
                faces += [[a, b, d], [b, c, d]]
            else:
                faces += [[a, b, c], [a, c, d]]
    return faces


def tube(n, m):
    faces = []
    for j in range(m):
        for i in range(n):
            a, b = j * n + i, j * n + (i + 1) % n
            c, d = (j + 1) * n + (i + 1) % n, (j + 1) * n + i
            faces += [[a, b, c], [a, c, d]]
    return faces


TETRA = [[0, 1, 2], [0, 3, 1], [1, 3, 2], [2, 3, 0]]
OCTA = [[0, 2, 4], [2, 1, 4], [1, 3, 4], [3, 0, 4], [2, 0, 5], [1, 2, 5], [3, 1, 5], [0, 3, 5]]
BOX = [[4, 7, 5], [4, 6, 7], [0, 2, 4], [2, 6, 4], [0, 1, 2], [1, 3, 2], [1, 5, 7], [1, 7, 3], [2, 3, 7], [2, 7, 6], [0, 4, 1], [1, 4, 5]]


def shift(faces, k):
    return [[a + k, b + k, c + k] for a, b, c in faces]


def nverts(faces):
    return max((max(f) for f in faces), default=-1) + 1


def rnd_mesh(rng):
    r = rng.random()
    if r < 0.2:
        f = grid(rng.randint(1, 4), rng.randint(1, 4), rng.random() < 0.5)
    elif r < 0.3:
        f = tube(rng.randint(3, 6), rng.randint(1, 3))
    elif r < 0.4:
        f = [list(x) for x in rng.choice([TETRA, OCTA, BOX])]
    elif r < 0.5:
        a = grid(rng.randint(1, 3), rng.randint(1, 2))
        f = a + shift(rng.choice([TETRA, grid(1, 2), tube(3, 1)]), nverts(a))     # multi-component
    elif r < 0.62:
        g = grid(3, 3)
        k = rng.sample(range(len(g)), rng.randint(1, 5))                          # holes / irregular outline
        f = [x for i, x in enumerate(g) if i not in k]
    elif r < 0.75:
        a = grid(rng.randint(1, 2), rng.randint(1, 2))                            # vertex-only contact (bow-tie)
        b = shift(grid(rng.randint(1, 2), 1), nverts(a))
        v = rng.randrange(nverts(a))
        w = rng.choice(sorted(set(x for t in b for x in t)))
        f = a + [[v if x == w else x for x in t] for t in b]
    else:
        g = grid(rng.randint(2, 4), rng.randint(2, 3), rng.random() < 0.5)
        f = [x for x in g if rng.random() < 0.8]
    f = [list(x) for x in f]
    if rng.random() < 0.35 and f:                                                   # inconsistent winding
        for _ in range(rng.randint(1, 3)):
            i = rng.randrange(len(f))
            f[i] = [f[i][0], f[i][2], f[i][1]]
    if rng.random() < 0.08 and f:                                                   # non-manifold: third face on an edge
        t = rng.choice(f)
        f.append([t[0], t[1], nverts(f)])
        f.append([t[1], t[0], nverts(f)])
    if rng.random() < 0.3:
        rng.shuffle(f)
    return f


def small_exhaustive(nv=5, nf=3):
    tris = []
    for a, b, c in itertools.combinations(range(nv), 3):
        tris.append([a, b, c])
        tris.append([a, c, b])
    out = []
    for k in range(1, nf + 1):
        for combo in itertools.combinations(tris, k):
            keys = [tuple(sorted(t)) for t in combo]
            if len(set(keys)) < len(keys):
                continue
            out.append([list(t) for t in combo])
    return out


def corpus():
    # D10 witnesses (fixed): vertex-only contact, flipped face; D11 witness (fixed)
    for f in ([[0, 1, 2], [2, 4, 3]], [[0, 1, 2], [0, 3, 2]], [[0, 1, 2], [1, 3, 2]], TETRA, BOX):
        yield {"k": "c12.edges", "faces": f, "nv": nverts(f), "timeout_ms": 5000}
        yield {"k": "c12.patches", "faces": f, "nv": nverts(f), "reps": 6, "timeout_ms": 5000}
    yield {"k": "c12.chain", "pairs": [[0, 1], [1, 2], [2, 3], [5, 6], [6, 5], [9, 8]]}
    yield {"k": "c12.chain", "pairs": [[0, 1], [1, 2], [1, 3], [4, 1]]}
    yield {"k": "c12.clusters", "voxels": [[0, 0, 0], [1, 1, 1], [3, 0, 0], [3, 0, 1], [-1, -1, 0], [5, 5, 5]]}
    for st in (3, 4, 8):
        yield {"k": "c12.cyl", "r": 1.5, "h": 2.0, "steps": st}
    yield {"k": "c12.box", "w": 1.0, "h": 2.0, "d": 3.0}


def gen_chain(rng):
    n = rng.randint(0, 9)
    pairs = []
    r = rng.random()
    if r < 0.4:      # disjoint paths / loops in scrambled order
        v = 0
        for _ in range(rng.randint(1, 3)):
            m = rng.randint(1, 4)
            seq = list(range(v, v + m + 1))
            v += m + 1
            ps = [[seq[i], seq[i + 1]] for i in range(m)]
            if rng.random() < 0.4:
                ps.append([seq[-1], seq[0]])
            pairs += ps
        rng.shuffle(pairs)
    else:
        pairs = [[rng.randint(0, 5), rng.randint(0, 5)] for _ in range(n)]
    return {"k": "c12.chain", "pairs": pairs}


def gen_clusters(rng):
    n = rng.choice([0, 1, 3, 6, 10, 16])
    span = rng.choice([2, 3, 5])
    vox = set()
    for _ in range(n):
        vox.add((rng.randint(-span, span), rng.randint(-span, span), rng.randint(-1, 1)))
    return {"k": "c12.clusters", "voxels": [list(v) for v in sorted(vox)]}


def generate(rng, tier):
    out = []
    n = 50 if tier == "quick" else 500
    for _ in range(n):
        f = rnd_mesh(rng)
        if not f:
            continue
        out.append({"k": "c12.edges", "faces": f, "nv": nverts(f), "timeout_ms": 5000})
        out.append({"k": "c12.patches", "faces": f, "nv": nverts(f), "timeout_ms": 5000})
        out.append({"k": "c12.patch_boundaries", "faces": f, "nv": nverts(f), "reps": 3, "timeout_ms": 5000})
        out.append(gen_chain(rng))
        out.append(gen_clusters(rng))
    for _ in range(n // 5):
        # patches with several boundary loops: open tubes (two rims), plates with holes
        st = rng.randint(3, 12)
        tube = [[2 * i, 2 * ((i + 1) % st) + 1, 2 * i + 1] for i in range(st)] + [[2 * i, 2 * ((i + 1) % st), 2 * ((i + 1) % st) + 1] for i in range(st)]
        out.append({"k": "c12.patch_boundaries", "faces": tube, "nv": 2 * st, "reps": 4, "timeout_ms": 5000})
        m = rng.choice([4, 5, 6])
        holes = set(rng.sample([(i, j) for i in range(1, m - 1) for j in range(1, m - 1)], rng.randint(1, 3)))
        plate = []
        for j in range(m):
            for i in range(m):
                if (i, j) in holes:
                    continue
                a = j * (m + 1) + i
                plate += [[a, a + 1, a + m + 2], [a, a + m + 2, a + m + 1]]
        out.append({"k": "c12.patch_boundaries", "faces": plate, "nv": (m + 1) * (m + 1), "reps": 4, "timeout_ms": 5000})
    for _ in range(n // 10):
        out.append({"k": "c12.box", "w": rng.uniform(0.1, 10), "h": rng.uniform(0.1, 10), "d": rng.uniform(0.1, 10)})
        out.append({"k": "c12.cyl", "r": rng.uniform(0.1, 10), "h": rng.uniform(0.1, 10), "steps": rng.randint(3, 40)})
    small = small_exhaustive(5, 3 if tier == "thorough" else 2)
    if tier == "quick":
        small = rng.sample(small, 120)
    for f in small:
        out.append({"k": "c12.edges", "faces": f, "nv": 5, "timeout_ms": 5000, "reps": 1})
        out.append({"k": "c12.patches", "faces": f, "nv": 5, "timeout_ms": 5000, "reps": 2})
    return out


# ------------------------------------------------------------------ helpers

def ukey(a, b):
    return (min(a, b), max(a, b))


def edge_counts(faces):
    cnt = {}
    for a, b, c in faces:
        for e in ((b, c), (c, a), (a, b)):
            cnt[ukey(*e)] = cnt.get(ukey(*e), 0) + 1
    return cnt


def classify(faces):
    cnt = edge_counts(faces)
    tags = []
    if any(v > 2 for v in cnt.values()):
        tags.append("nonmanifold")
    directed = {}
    for a, b, c in faces:
        for e in ((b, c), (c, a), (a, b)):
            directed[e] = directed.get(e, 0) + 1
    if any(v > 1 for v in directed.values()):
        tags.append("flipped")
    bdeg = {}
    for (a, b), v in cnt.items():
        if v == 1:
            bdeg[a] = bdeg.get(a, 0) + 1
            bdeg[b] = bdeg.get(b, 0) + 1
    if any(v > 2 for v in bdeg.values()):
        tags.append("bowtie")
    if not bdeg:
        tags.append("closed")
    return tags, cnt, bdeg


def tag(c, r):
    k = c["k"]
    if isinstance(r, dict) and (r.get("timeout") or r.get("panic")):
        return k + (":timeout" if r.get("timeout") else ":panic")
    if k in ("c12.edges", "c12.patches", "c12.patch_boundaries"):
        if not c["faces"]:
            return "trivial"
        tags, _, _ = classify(c["faces"])
        return "%s:f%d:%s" % (k, min(len(c["faces"]), 12) // 4, "+".join(tags) or "regular")
    if k == "c12.chain":
        return "trivial" if not c["pairs"] else "%s:n%d:c%d" % (k, min(len(c["pairs"]), 8) // 3, min(len(r["chains"]), 3))
    if k == "c12.clusters":
        return "trivial" if not c["voxels"] else "%s:c%d" % (k, min(len(r["runs"][0]), 4))
    return k


# ------------------------------------------------------------------ model comparison

def patch_boundary_edges(faces):
    """directed boundary edges of every edge-connected patch, and whether every boundary vertex is entered once and left once;
    None for non-manifold input"""
    byedge = {}
    for i, (a, b, cc) in enumerate(faces):
        for e in ((a, b), (b, cc), (cc, a)):
            byedge.setdefault(ukey(*e), []).append(i)
    if any(len(v) > 2 for v in byedge.values()):
        return None
    pairs = [(fs[0], x) for fs in byedge.values() for x in fs[1:]]
    want = []
    clean = True
    for comp in components(len(faces), pairs):
        cnt = {}
        for i in comp:
            a, b, cc = faces[i]
            for e in ((a, b), (b, cc), (cc, a)):
                cnt[ukey(*e)] = cnt.get(ukey(*e), 0) + 1
        mine = []
        for i in comp:
            a, b, cc = faces[i]
            mine += [e for e in ((a, b), (b, cc), (cc, a)) if cnt[ukey(*e)] == 1]
        # patch by patch: two patches that touch at a vertex each have their own loops through it
        outs, ins = {}, {}
        for e in mine:
            outs[e[0]] = outs.get(e[0], 0) + 1
            ins[e[1]] = ins.get(e[1], 0) + 1
        clean = clean and all(v == 1 for v in outs.values()) and all(v == 1 for v in ins.values())
        want += mine
    return want, clean


def coq_check(c, r):
    if c["k"] == "c12.patch_boundaries":
        # only for boundaries that are disjoint directed cycles (the theorem's hypothesis); the successor map is computed here
        info = patch_boundary_edges([tuple(f) for f in c["faces"]])
        if info is None or not info[1] or any(run.get("err") for run in r["runs"]):
            return None
        m = [(int(a), int(b)) for a, b in info[0]]
        return "check_patch_loops %s %s" % (coq(m), coq([[int(v) for v in lp] for lp in r["runs"][0]["loops"]]))
    k = c["k"]
    if isinstance(r, dict) and (r.get("timeout") or r.get("panic")):
        return "1000%Z"   # the model always terminates without panic
    if k == "c12.edges":
        faces = [tuple(f) for f in r["faces"]]
        run = r["runs"][0]
        if any(x != run for x in r["runs"]):
            return "1001%Z"
        if run.get("err"):
            rust = None
        else:
            rust = Some(([tuple(e) for e in run["edges"]], [tuple(f) for f in run["face_edges"]], [list(l) for l in run["loops"]]))
        term = "check_edges %s %s" % (coq(faces), coq(rust))
        af = r.get("after")
        if af and not af["runs"][0].get("err") and len(af["faces"]) <= 60:
            ar = af["runs"][0]
            term = "both (%s) (check_edges %s %s)" % (term, coq([tuple(f) for f in af["faces"]]),
                                                     coq(Some(([tuple(e) for e in ar["edges"]], [tuple(f) for f in ar["face_edges"]], [list(l) for l in ar["loops"]]))))
        return term
    if k == "c12.patches":
        faces = [tuple(f) for f in r["faces"]]
        return "check_patches %s %s" % (coq(faces), coq([[list(p) for p in run] for run in r["runs"]]))
    if k == "c12.chain":
        return "check_chain %s %s" % (coq([tuple(p) for p in c["pairs"]]), coq([list(x) for x in r["chains"]]))
    if k == "c12.clusters":
        return "check_clusters %s %s" % (coq([tuple(v) for v in c["voxels"]]),
                                        coq([[[tuple(v) for v in g] for g in run] for run in r["runs"]]))
    if k == "c12.box":
        return "check_box %s %s %s %s %s" % (coq(c["w"]), coq(c["h"]), coq(c["d"]), coq([tuple(v) for v in r["verts"]]),
                                            coq([tuple(f) for f in r["faces"]]))
    if k == "c12.cyl":
        return "check_cyl %s %s %s %s %s" % (coq(c["r"]), coq(c["h"]), coq(c["steps"]), coq([tuple(v) for v in r["verts"]]),
                                            coq([tuple(f) for f in r["faces"]]))
    return None


# ------------------------------------------------------------------ search: oracles on the implementation's outputs

def components(n, adj_pairs):
    parent = list(range(n))
    def find(x):
        while parent[x] != x:
            parent[x] = parent[parent[x]]
            x = parent[x]
        return x
    for a, b in adj_pairs:
        parent[find(a)] = find(b)
    groups = {}
    for i in range(n):
        groups.setdefault(find(i), []).append(i)
    return sorted(sorted(g) for g in groups.values())


def oracle(c, r):
    k = c["k"]
    if isinstance(r, dict) and r.get("timeout"):
        yield (k.split(".")[1] + "-hang", "%s did not finish within %d ms on %r" % (k, c.get("timeout_ms", 20000), c.get("faces", c)))
        return
    if isinstance(r, dict) and r.get("panic"):
        yield (k.split(".")[1] + "-panic", "%s panicked on %r" % (k, c.get("faces", c)))
        return
    if k == "c12.edges":
        if r.get("after"):
            # the same mesh value after calc_edges, append of a moved copy, calc_edges (and once more after a rigid motion)
            for key, msg in oracle({"k": "c12.edges", "_moved": True}, r["after"]):
                yield (key, "after calc_edges -> append -> calc_edges: " + msg)
        faces = r["faces"]
        tags, cnt, bdeg = classify(faces)
        runs = r["runs"]
        if "nonmanifold" in tags:
            if not all(x.get("err") for x in runs):
                yield ("edges-nonmanifold", "an edge shared by three faces was accepted: %r" % (faces,))
            return
        for run in runs:
            if run.get("err"):
                yield ("edges-err", "calc_edges rejected manifold mesh %r" % (faces,))
                return
            edges = [tuple(e) for e in run["edges"]]
            if sorted(set(ukey(*e) for e in edges)) != sorted(cnt) or len(edges) != len(cnt):
                yield ("edges-once", "edge table %r does not list each undirected edge of %r exactly once" % (edges, faces))
            verts = r["verts"]
            for e, ln in zip(edges, run["lengths"]):
                d = math.dist(verts[e[0]], verts[e[1]])
                if not C.close(d, ln):
                    yield ("edges-length", "edge %r has length %r, reported %r" % (e, d, ln))
            for f, fe in zip(faces, run["face_edges"]):
                want = [ukey(f[1], f[2]), ukey(f[2], f[0]), ukey(f[0], f[1])]
                got = [ukey(*edges[i]) if i < len(edges) else None for i in fe]
                if got != want:
                    yield ("edges-face-map", "face %r maps to edges %r, expected %r" % (f, got, want))
            used = {}
            for lp in run["loops"]:
                if len(lp) < 2:
                    yield ("loops-short", "degenerate boundary loop %r" % (lp,))
                    continue
                for i in range(len(lp)):
                    e = ukey(lp[i], lp[(i + 1) % len(lp)])
                    used[e] = used.get(e, 0) + 1
            boundary = {e: 1 for e, v in cnt.items() if v == 1}
            if used != boundary:
                yield ("loops-partition", "boundary loops %r do not contain each boundary edge of %r exactly once as closed cycles (boundary edges %r)" % (run["loops"], faces, sorted(boundary)))
        strip = lambda x: {kk: vv for kk, vv in x.items() if kk != "lengths"}
        if any((strip(x) if c.get("_moved") else x) != (strip(runs[0]) if c.get("_moved") else runs[0]) for x in runs):
            yield ("edges-unstable", "calc_edges gave different answers on the same mesh %r" % (faces,))
    elif k == "c12.patches":
        faces = r["faces"]
        byedge = {}
        for i, (a, b, cc) in enumerate(faces):
            for e in ((a, b), (b, cc), (cc, a)):
                byedge.setdefault(ukey(*e), []).append(i)
        pairs = [(fs[0], x) for fs in byedge.values() for x in fs[1:]]
        want = components(len(faces), pairs)
        for run in r["runs"]:
            got = sorted(sorted(p) for p in run)
            if got != want:
                yield ("patches-partition", "get_patches = %r on %r; edge-connected components are %r" % (run, faces, want))
                return
    elif k == "c12.patch_boundaries":
        faces = [tuple(f) for f in c["faces"]]
        info = patch_boundary_edges(faces)
        if info is None:
            return      # "will not work on non-manifold meshes"
        want, clean = info      # clean: within every patch each boundary vertex is entered once and left once
        for run in r["runs"]:
            if run.get("err"):
                if clean:
                    yield ("patch-boundary", "get_patch_boundary_points failed on %r although within every patch each boundary vertex has one way in and one way out" % (faces,))
                    return
                continue
            got = []
            for lp in run["loops"]:
                got += [(lp[i], lp[(i + 1) % len(lp)]) for i in range(len(lp))]
            if sorted(got) != sorted(want):
                miss = sorted(set(want) - set(got))
                extra = sorted(set(got) - set(want))
                yield ("patch-boundary", "get_patch_boundary_points on %r: %d loops %r; boundary edges missing %r, not boundary edges %r" % (faces, len(run["loops"]), run["loops"], miss[:8], extra[:8]))
                return
    elif k == "c12.chain":
        pairs = [tuple(p) for p in c["pairs"]]
        used = []
        for ch in r["chains"]:
            if len(ch) < 2:
                yield ("chain-short", "chain %r" % (ch,))
            used += [(ch[i], ch[i + 1]) for i in range(len(ch) - 1)]
        if sorted(used) != sorted(pairs):
            yield ("chain-exactly-once", "chains %r do not use each of %r exactly once" % (r["chains"], pairs))
        # maximality under the unique-candidate rule: a finished chain's end has no unique continuation left... by construction
        # all pairs are consumed, so two chains could only be joined if the joint was ambiguous when visited:
        for a in r["chains"]:
            for b in r["chains"]:
                if a is not b and a[-1] == b[0]:
                    starts = sum(1 for p in pairs if p[0] == a[-1])
                    ends = sum(1 for p in pairs if p[1] == a[-1])
                    if starts == 1 and ends == 1:
                        yield ("chain-maximal", "chains %r and %r meet at %r with a unique continuation but were not joined" % (a, b, a[-1]))
    elif k == "c12.clusters":
        vox = [tuple(v) for v in c["voxels"]]
        idx = {v: i for i, v in enumerate(vox)}
        pairs = []
        for v in vox:
            for dx in (-1, 0, 1):
                for dy in (-1, 0, 1):
                    for dz in (-1, 0, 1):
                        w = (v[0] + dx, v[1] + dy, v[2] + dz)
                        if w != v and w in idx:
                            pairs.append((idx[v], idx[w]))
        want = sorted(sorted(vox[i] for i in g) for g in components(len(vox), pairs))
        for run in r["runs"]:
            got = sorted(sorted(tuple(v) for v in g) for g in run)
            if got != want:
                yield ("clusters-partition", "clusters %r of %r; 26-connected components are %r" % (run, vox, want))
                return
    elif k in ("c12.box", "c12.cyl"):
        faces, verts = r["faces"], r["verts"]
        directed = {}
        for a, b, cc in faces:
            for e in ((a, b), (b, cc), (cc, a)):
                directed[e] = directed.get(e, 0) + 1
        if any(v > 1 for v in directed.values()):
            yield (k[4:] + "-winding", "%s: an edge is traversed twice in the same direction (inconsistent winding)" % k)
        if k == "c12.box" and any((b, a) not in directed for (a, b) in directed):
            yield ("box-open", "create_box is not closed")
        if r["normals"] is None:
            yield (k[4:] + "-normals", "face normals unavailable")
            return
        ctr = [sum(v[i] for v in verts) / len(verts) for i in range(3)]
        for f, n in zip(faces, r["normals"]):
            fc = [sum(verts[i][j] for i in f) / 3 for j in range(3)]
            out = [fc[j] - ctr[j] for j in range(3)]
            if k == "c12.cyl":
                out[2] = 0.0
            if sum(a * b for a, b in zip(out, n)) <= 0:
                yield (k[4:] + "-inward", "%s: face %r has an inward normal %r" % (k, f, n))
                break
