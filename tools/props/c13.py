"""C13  Plane sections and splits of a mesh lie on the plane and on the surface."""
import math
import common as C
from common import Some, Nat, Raw, opt, coq

LEVEL = "proof"
COQ_IMPORTS = ["Tie.C13"]
RULE = ("watertight convex solids (boxes, prisms over convex polygons, tetrahedra) and open surfaces (height fields, single faces, two "
        "components) in arbitrary pose; planes of any normal and offset crossing, touching (avoided by a margin in the main stream, probed "
        "in a separate one: through vertices / containing faces) and missing the mesh; rigid motion of mesh and plane together. "
        "distinct = distinct (tag, input)")
TRUSTED_BASE = [
    "Coq 8.16.1 kernel and vm_compute",
    "hand-written model coq/Model/Section.v: engeom's own part (index pairs -> chained_indices (C12's model and theorems) -> Curve3::from_points (C01's) per chain), tied by differential correspondence on the polyline parry actually produced: identical curves, order and vertices",
    "parry's intersection_with_local_plane and local_split are oracles certified on every case by tools/props/c13.py (on-plane, on-surface, one face per segment, closed loops on watertight meshes, analytic perimeter of convex sections, sides and area sum of splits, equivariance)",
]
ASSUMPTIONS = [
    "theorems over the model of engeom's assembly; the plane-mesh intersection itself is validated per explored input, not proved",
    "planes within 1e-6 of a vertex are excluded from the main stream (parry's own epsilon) and only required not to panic / to stay on plane and surface in the probe stream",
]


def cross(a, b):
    return [a[1] * b[2] - a[2] * b[1], a[2] * b[0] - a[0] * b[2], a[0] * b[1] - a[1] * b[0]]


def dot(a, b):
    return sum(x * y for x, y in zip(a, b))


def sub(a, b):
    return [x - y for x, y in zip(a, b)]


def unit(v):
    n = math.sqrt(dot(v, v))
    return [x / n for x in v]


def rot_matrix(axisangle):
    th = math.sqrt(dot(axisangle, axisangle))
    if th == 0:
        return [[1, 0, 0], [0, 1, 0], [0, 0, 1]]
    k = [x / th for x in axisangle]
    c, s = math.cos(th), math.sin(th)
    K = [[0, -k[2], k[1]], [k[2], 0, -k[0]], [-k[1], k[0], 0]]
    return [[(1 if i == j else 0) * c + s * K[i][j] + (1 - c) * k[i] * k[j] for j in range(3)] for i in range(3)]


def pose(rng, verts):
    aa = [rng.uniform(-2, 2) for _ in range(3)]
    t = [rng.uniform(-5, 5) for _ in range(3)]
    R = rot_matrix(aa)
    return [[sum(R[i][j] * v[j] for j in range(3)) + t[i] for i in range(3)] for v in verts]


def prism(rng):
    n = rng.choice([3, 4, 5, 8])
    rad = rng.uniform(0.5, 2)
    h = rng.uniform(0.5, 3)
    base = [[rad * math.cos(2 * math.pi * i / n), rad * math.sin(2 * math.pi * i / n)] for i in range(n)]
    verts = [[x, y, 0.0] for x, y in base] + [[x, y, h] for x, y in base] + [[0.0, 0.0, 0.0], [0.0, 0.0, h]]
    faces = []
    for i in range(n):
        j = (i + 1) % n
        faces += [[i, j, n + j], [i, n + j, n + i], [2 * n, j, i], [2 * n + 1, n + i, n + j]]
    return verts, faces


def box(rng):
    w = [rng.uniform(0.5, 3) for _ in range(3)]
    verts = [[(w[0] if i & 1 else 0.0), (w[1] if i & 2 else 0.0), (w[2] if i & 4 else 0.0)] for i in range(8)]
    faces = [[0, 2, 1], [1, 2, 3], [4, 5, 6], [5, 7, 6], [0, 1, 4], [1, 5, 4], [2, 6, 3], [3, 6, 7], [0, 4, 2], [2, 4, 6], [1, 3, 5], [3, 7, 5]]
    return verts, faces


def tetra(rng):
    verts = [[rng.uniform(-1, 1) for _ in range(3)] for _ in range(4)]
    c = cross(sub(verts[1], verts[0]), sub(verts[2], verts[0]))
    if dot(c, sub(verts[3], verts[0])) > 0:
        verts[1], verts[2] = verts[2], verts[1]
    return verts, [[0, 1, 2], [0, 3, 1], [1, 3, 2], [2, 3, 0]]


def height_field(rng):
    m = rng.choice([2, 3, 5])
    verts = [[float(i), float(j), rng.uniform(-0.5, 0.5)] for j in range(m + 1) for i in range(m + 1)]
    faces = []
    for j in range(m):
        for i in range(m):
            a = j * (m + 1) + i
            faces += [[a, a + 1, a + m + 2], [a, a + m + 2, a + m + 1]]
    return verts, faces


def gen(rng):
    kind = rng.choice(["box", "box", "prism", "prism", "tetra", "tetra", "two", "two", "two", "field"])
    if kind == "box":
        verts, faces = box(rng)
    elif kind == "prism":
        verts, faces = prism(rng)
    elif kind == "tetra":
        verts, faces = tetra(rng)
    elif kind == "field":
        verts, faces = height_field(rng)
    else:
        v1, f1 = box(rng)
        v2, f2 = tetra(rng)
        v2 = [[x + 6.0, y, z] for x, y, z in v2]
        verts, faces = v1 + v2, f1 + [[a + len(v1) for a in f] for f in f2]
    verts = pose(rng, verts)
    closed = kind in ("box", "prism", "tetra", "two")
    n = unit([rng.uniform(-1, 1) for _ in range(3)])
    if rng.random() < 0.2:
        n = unit(rng.choice([[1.0, 0.0, 0.0], [0.0, 1.0, 0.0], [0.0, 0.0, 1.0]]))
    ds = [dot(n, v) for v in verts]
    lo, hi = min(ds), max(ds)
    r = rng.random()
    probe = False
    if r < 0.75:
        for _ in range(100):
            d = rng.uniform(lo, hi)
            if all(abs(x - d) > 1e-3 * (hi - lo) for x in ds):
                break
    elif r < 0.83:
        d = rng.choice([lo - 0.5, hi + 0.5])
    elif r < 0.92:
        # close to a vertex but clear of it (well beyond parry's epsilon and the section tolerance): consecutive section
        # vertices are then only 1e-5 .. 1e-3 of the size apart
        for _ in range(100):
            d = rng.choice(ds) + rng.choice([-1, 1]) * rng.choice([3e-5, 1e-4, 3e-4]) * (hi - lo)
            if lo < d < hi and all(abs(x - d) > 1e-5 * (hi - lo) for x in ds):
                break
        else:
            d = (lo + hi) / 2
    else:
        probe = True
        d = rng.choice(ds)
    # open height fields mostly run into the known parry hang: a short watchdog there; closed meshes never legitimately take long, so a
    # generous one (a loaded machine must not be mistaken for a hang)
    return {"k": "c13.section", "via": rng.choice(["nd", "nd", "three", "three", "pn", "sp", "st", "stb"]), "via_s": [rng.choice([0.3, 1.0, 2.5, 7.0]), rng.choice([0.5, 1.0, 3.0])],
            "timeout_ms": 1500 if kind == "field" else 20000, "verts": verts, "faces": faces, "n": n, "d": d, "tol": 1e-6, "kind": kind, "closed": closed, "convex": kind in ("box", "prism", "tetra"),
            "probe": probe, "iso": {"t": [rng.uniform(-3, 3) for _ in range(3)], "axisangle": [rng.uniform(-2, 2) for _ in range(3)]}}


def corpus():
    v, f = box(__import__("random").Random(1))
    yield {"k": "c13.section", "verts": v, "faces": f, "n": [0.0, 0.0, 1.0], "d": 0.3, "tol": 1e-6, "kind": "box", "closed": True, "convex": True, "probe": False,
           "iso": {"t": [1.0, 2.0, 3.0], "axisangle": [0.1, 0.2, 0.3]}}


def generate(rng, tier):
    n = 250 if tier == "quick" else 4000
    return [gen(rng) for _ in range(n)]


def tag(c, r):
    if r.get("timeout"):
        return "%s:%s:hang" % (c["k"], c["kind"])
    raw = r.get("raw", {})
    return "%s:%s:%s:%s" % (c["k"], c["kind"], "probe" if c["probe"] else "main", raw.get("side", "cut"))


def T(p):
    return tuple(float(x) for x in p)


def coq_check(c, r):
    if r.get("timeout"):
        return None
    raw = r["raw"]
    if "pairs" not in raw or isinstance(r["curves"], dict):
        return None
    if len(raw["pairs"]) > 120:
        return None
    return "check_section %s %s %s %s" % (coq([T(p) for p in raw["verts"]]), coq([(int(a), int(b)) for a, b in raw["pairs"]]), coq(c["tol"]),
                                         coq([[T(p) for p in cv["points"]] for cv in r["curves"]]))


# ------------------------------------------------------------------ certificate oracles

def seg_closest(q, a, b):
    v = sub(b, a)
    w = sub(q, a)
    vv = dot(v, v)
    t = 0.0 if vv == 0 else max(0.0, min(1.0, dot(v, w) / vv))
    return [x + t * y for x, y in zip(a, v)]


def tri_dist(q, a, b, c):
    n = cross(sub(b, a), sub(c, a))
    nn = dot(n, n)
    best = min(math.dist(q, seg_closest(q, a, b)), math.dist(q, seg_closest(q, b, c)), math.dist(q, seg_closest(q, c, a)))
    if nn > 0:
        s = dot(sub(q, a), n) / nn
        p = [x - s * y for x, y in zip(q, n)]
        if dot(cross(sub(b, a), sub(p, a)), n) >= 0 and dot(cross(sub(c, b), sub(p, b)), n) >= 0 and dot(cross(sub(a, c), sub(p, c)), n) >= 0:
            best = min(best, math.dist(q, p))
    return best


def convex_section_perimeter(verts, n, d):
    """perimeter of the cross-section of the convex hull of verts with the plane n.x = d"""
    pts = []
    for i, a in enumerate(verts):
        for b in verts[i + 1:]:
            da, db = dot(n, a) - d, dot(n, b) - d
            if da * db < 0:
                t = da / (da - db)
                pts.append([x + t * (y - x) for x, y in zip(a, b)])
    if len(pts) < 3:
        return None
    # project to the plane and take the convex hull perimeter
    u = unit(cross(n, [1.0, 0.0, 0.0] if abs(n[0]) < 0.9 else [0.0, 1.0, 0.0]))
    v = cross(n, u)
    p2 = sorted(set((round(dot(p, u), 12), round(dot(p, v), 12)) for p in pts))
    def half(ps):
        h = []
        for p in ps:
            while len(h) >= 2 and (h[-1][0] - h[-2][0]) * (p[1] - h[-2][1]) - (h[-1][1] - h[-2][1]) * (p[0] - h[-2][0]) <= 0:
                h.pop()
            h.append(p)
        return h
    lower, upper = half(p2), half(p2[::-1])
    hull = lower[:-1] + upper[:-1]
    return sum(math.dist(hull[i], hull[(i + 1) % len(hull)]) for i in range(len(hull)))


def oracle(c, r):
    if r.get("timeout"):
        yield ("section-hang-open-mesh" if not c["closed"] else "section-hang",
               "Mesh::section / split of a %s mesh (%d faces, %s) by plane n=%r d=%r did not finish" % (c["kind"], len(c["faces"]), "watertight" if c["closed"] else "open, with boundary edges", c["n"], c["d"]))
        return
    verts, faces, n, d = c["verts"], c["faces"], r["n"], c["d"]
    tris = [(verts[f[0]], verts[f[1]], verts[f[2]]) for f in faces]
    scale = max(1.0, max(abs(x) for v in verts for x in v))
    ds = [dot(n, v) - d for v in verts]
    what = "section of a %s mesh (%d faces) by plane n=%r d=%r" % (c["kind"], len(faces), n, d)
    curves = r["curves"]
    if isinstance(curves, dict):
        yield ("section-panic" if curves.get("panic") else "section-error", what + (" panicked" if curves.get("panic") else " returned an error"))
        return
    crosses = any(min(dot(n, v) - d for v in t) < -1e-6 and max(dot(n, v) - d for v in t) > 1e-6 for t in tris)
    if not c["probe"]:
        if crosses and not curves:
            yield ("section-missing", what + ": the plane crosses the mesh but no curve is returned")
            return
        if not crosses and curves:
            yield ("section-spurious", what + ": the mesh is on one side but %d curves are returned" % len(curves))
            return
    total = 0.0
    for cv in curves:
        pts = cv["points"]
        total += cv["length"]
        for p in pts:
            if abs(dot(n, p) - d) > 1e-6 * scale:
                yield ("section-on-plane", what + ": vertex %r is %r off the plane" % (p, dot(n, p) - d))
                return
            if min(tri_dist(p, *t) for t in tris) > 1e-6 * scale:
                yield ("section-on-surface", what + ": vertex %r is not on the mesh" % (p,))
                return
        for a, b in zip(pts, pts[1:]):
            mid = [(x + y) / 2 for x, y in zip(a, b)]
            if min(max(tri_dist(a, *t), tri_dist(b, *t), tri_dist(mid, *t)) for t in tris) > 1e-6 * scale:
                yield ("section-one-face", what + ": consecutive vertices %r, %r are not joined across one face" % (a, b))
                return
        if c["closed"] and not c["probe"] and math.dist(pts[0], pts[-1]) > 1e-6 * scale:
            yield ("section-closed", what + ": the mesh is watertight but a section curve runs from %r to %r" % (pts[0], pts[-1]))
            return
    if c["convex"] and crosses and not c["probe"]:
        per = convex_section_perimeter(verts, n, d)
        if len(curves) != 1:
            yield ("section-one-loop", what + ": convex solid cut into %d curves" % len(curves))
        elif per is not None and abs(total - per) > 1e-6 * scale * 10:
            yield ("section-perimeter", what + ": curve length %r, analytic perimeter of the cross-section %r" % (total, per))
    # each plane-face crossing segment used exactly once: number of curve edges = number of raw pairs (minus collapsed ones)
    raw = r["raw"]
    if "pairs" in raw and not c["probe"]:
        edges = sum(len(cv["points"]) - 1 for cv in curves)
        proper = sum(1 for t in tris if min(dot(n, v) - d for v in t) < -1e-6 and max(dot(n, v) - d for v in t) > 1e-6)
        if edges != proper:
            yield ("section-segments", what + ": %d curve edges for %d properly crossed faces (parry produced %d segments)" % (edges, proper, len(raw["pairs"])))
    # equivariance
    mv = r["moved"]
    if not isinstance(mv, dict) and not c["probe"]:
        if len(mv) != len(curves) or abs(sum(x["length"] for x in mv) - total) > 1e-6 * scale * 10:
            yield ("section-equivariant", what + ": after a rigid motion of mesh and plane %d curves of total length %r, before %d of %r" % (
                len(mv), sum(x["length"] for x in mv), len(curves), total))
        else:
            for cv in mv:
                for p in cv["points"]:
                    if abs(dot(n, p) - d) > 1e-6 * scale * 10 or min(tri_dist(p, *t) for t in tris) > 1e-6 * scale * 10:
                        yield ("section-equivariant", what + ": moved section vertex %r maps back off the plane or the mesh" % (p,))
                        return
    # split
    sp = r["split"]
    if sp.get("panic"):
        yield ("split-panic", what + ": split panicked")
    elif not c["probe"]:
        if "pair" in sp:
            if not (min(ds) < -1e-6 and max(ds) > 1e-6):
                yield ("split-spurious", what + ": split produced two meshes but the mesh is on one side")
            a, b = sp["pair"]
            for m, sgn, name in ((a, -1, "first"), (b, 1, "second")):
                bad = [v for v in m["verts"] if sgn * (dot(n, v) - d) < -1e-6 * scale]
                if bad:
                    # which side is which is parry's convention: accept either consistent assignment
                    bad2 = [v for v in m["verts"] if -sgn * (dot(n, v) - d) < -1e-6 * scale]
                    if bad2:
                        yield ("split-sides", what + ": %s split mesh has vertices on both sides, e.g. %r" % (name, bad[0]))
                        break
            if abs(a["area"] + b["area"] - r["area"]) > 1e-6 * max(1.0, r["area"]):
                yield ("split-area", what + ": split areas %r + %r != %r" % (a["area"], b["area"], r["area"]))
        else:
            if min(ds) < -1e-6 and max(ds) > 1e-6:
                yield ("split-missing", what + ": the plane crosses the mesh but split reports the %s side" % sp.get("side"))
            elif (sp.get("side") == "negative") != (max(ds) <= 1e-6):
                yield ("split-side", what + ": split reports %s, vertex offsets are in [%r, %r]" % (sp.get("side"), min(ds), max(ds)))
