"""C01  Curve stations are consistent with arc length."""
import math
import common as C
from common import Some, Nat, Raw, opt, coq

LEVEL = "proof"
COQ_IMPORTS = ["Tie.C01"]
RULE = ("2D and 3D vertex sequences with 2..12 vertices: uneven edge lengths (ratios to 1e4), collinear runs, self-touching, "
        "near-duplicate vertices inside and outside the tolerance; open, naturally closed and force-closed; arc lengths given "
        "symbolically and resolved against the implementation's own cumulative lengths: 0, L, every stored vertex length and "
        "one ulp either side, interior points of every edge, just outside. distinct = distinct (tag, input)")
TRUSTED_BASE = [
    "Coq 8.16.1 kernel and vm_compute",
    "hand-written generic model coq/Model/Curve.v (instantiated at V2 and V3), tied by differential correspondence Tie/C01.v: vertex lists and cumulative lengths must agree bit-for-bit before branch decisions are compared",
    "harness/src/c01.rs, generators and oracles in tools/props/c01.py",
]
ASSUMPTIONS = [
    "theorems over exact reals; the branch taken by at_length is comparison-only and is exercised at stored lengths and their ulp neighbours by the correspondence",
    "vertex direction at an interior vertex / closed seam is the normalised sum of the adjacent edge directions; exactly antiparallel neighbours (a spike) have no such direction and are excluded by hypothesis",
    "CurveStation2::normal is the direction rotated by -pi/2 (nalgebra builds it from sin/cos of FRAC_PI_2; compared within 1e-12)",
]


def rnd_pts(rng, dim):
    n = rng.choice([2, 2, 3, 4, 5, 7, 12])
    scale = rng.choice([1e-3, 1.0, 1.0, 100.0])
    pts = [[rng.uniform(-1, 1) * scale for _ in range(dim)]]
    for _ in range(n - 1):
        r = rng.random()
        step = scale * rng.choice([1e-4, 0.01, 1.0, 1.0, 3.0])
        if r < 0.15 and len(pts) >= 2:      # collinear continuation
            d = [a - b for a, b in zip(pts[-1], pts[-2])]
            nd = math.sqrt(sum(x * x for x in d)) or 1.0
            pts.append([a + x / nd * step for a, x in zip(pts[-1], d)])
        elif r < 0.25:                        # near-duplicate (inside or just outside tolerance)
            eps = rng.choice([1e-9, 5e-7, 2e-6])
            pts.append([a + eps for a in pts[-1]])
        elif r < 0.32 and len(pts) >= 3:     # self-touching: revisit an earlier vertex
            pts.append(list(pts[rng.randrange(len(pts) - 1)]))
        else:
            pts.append([a + rng.uniform(-1, 1) * step for a in pts[-1]])
    if rng.random() < 0.25:
        pts.append(list(pts[0]))             # naturally closed
    if rng.random() < 0.2:
        pts = [[float(round(x * 4) / 4) for x in p] for p in pts]
    return pts


def queries(rng, n):
    qs = [{"kind": "abs", "l": 0.0}, {"kind": "frac", "f": 1.0}, {"kind": "abs", "l": -1e-9}, {"kind": "abs", "l": -0.0},
          {"kind": "frac", "f": 1.0, "ulp": 1}, {"kind": "frac", "f": 1.0, "ulp": -1}, {"kind": "frac", "f": 1.5}]
    for k in range(n + 2):
        for u in (0, 1, -1):
            qs.append({"kind": "vertex", "k": k, "ulp": u})
        qs.append({"kind": "edge", "k": k, "f": rng.random()})
        qs.append({"kind": "edge", "k": k, "f": rng.choice([0.5, 1e-9, 1 - 1e-9])})
    qs.append({"kind": "frac", "f": rng.random()})
    return qs


def gen2(rng):
    pts = rnd_pts(rng, 2)
    return {"k": "c01.curve2", "pts": pts, "tol": rng.choice([1e-6, 1e-6, 1e-3, 0.0]), "force_closed": rng.random() < 0.35,
            "queries": queries(rng, len(pts))}


def gen3(rng):
    pts = rnd_pts(rng, 3)
    return {"k": "c01.curve3", "pts": pts, "tol": rng.choice([1e-6, 1e-6, 1e-3]), "queries": queries(rng, len(pts))}


def corpus():
    sq = [[0.0, 0.0], [1.0, 0.0], [1.0, 1.0], [0.0, 1.0]]
    yield {"k": "c01.curve2", "pts": sq, "tol": 1e-6, "force_closed": True, "queries": queries(__import__("random").Random(1), 5)}
    yield {"k": "c01.curve2", "pts": sq, "tol": 1e-6, "force_closed": False, "queries": queries(__import__("random").Random(2), 4)}
    # the excluded spike: two points force-closed (A, B, A)
    yield {"k": "c01.curve2", "pts": [[0.0, 0.0], [1.0, 0.5]], "tol": 1e-6, "force_closed": True, "queries": queries(__import__("random").Random(3), 3)}
    yield {"k": "c01.curve3", "pts": [[0.0, 0.0, 0.0], [1.0, 0.0, 0.0], [1.0, 2.0, 0.0], [1.0, 2.0, 0.5]], "tol": 1e-6,
           "queries": queries(__import__("random").Random(4), 4)}


def generate(rng, tier):
    n = 120 if tier == "quick" else 2000
    out = []
    for _ in range(n):
        out.append(gen2(rng))
        out.append(gen3(rng))
    return out


def tag(c, r):
    k = c["k"]
    if r.get("err"):
        return k + ":rejected"
    if k == "c01.curve2":
        kind = "closed" if r["closed"] else "open"
        if c["force_closed"]:
            kind += "+forced"
        return "%s:%s:n%d" % (k, kind, min(r["count"], 9) // 3)
    return "%s:n%d" % (k, min(r["count"], 9) // 3)


def st2(s):
    if s is None:
        return None
    return Some((s["index"], s["fraction"], s["length_along"], tuple(s["point"]), tuple(s["dir"]), tuple(s["normal"])))


def st3(s):
    if s is None:
        return None
    return Some((s["index"], s["fraction"], s["length_along"], tuple(s["point"]), tuple(s["dir"])))


def coq_check(c, r):
    k = c["k"]
    if k == "c01.curve2":
        if r.get("err"):
            rust = None
        else:
            qs = [(q["l"], st2(q["at_length"]), q["f"], st2(q["at_fraction"])) for q in r["queries"]]
            rust = Some((list(r["lengths"]), bool(r["closed"]), [tuple(p) for p in r["points"]], qs, [st2(s).v for s in r["iter"]]))
        return "check_curve2 %s %s %s %s" % (coq([tuple(p) for p in c["pts"]]), coq(c["tol"]), coq(bool(c["force_closed"])), coq(rust))
    if k == "c01.curve3":
        if r.get("err"):
            rust = None
        else:
            qs = [(q["l"], st3(q["at_length"]), q["f"], st3(q["at_fraction"])) for q in r["queries"]]
            rust = Some((list(r["lengths"]), [tuple(p) for p in r["points"]], qs))
        return "check_curve3 %s %s %s" % (coq([tuple(p) for p in c["pts"]]), coq(c["tol"]), coq(rust))
    return None


# ------------------------------------------------------------------ search oracles (on the implementation's outputs)

def sub(a, b):
    return [x - y for x, y in zip(a, b)]


def norm(a):
    return math.sqrt(sum(x * x for x in a))


def oracle(c, r):
    k = c["k"]
    if r.get("err"):
        return
    if r.get("panic") or "points" not in r:
        yield ("construct-panic", "building a %s from %d points (tol %r%s) panicked instead of returning a curve or an error" % (
            "Curve2" if k == "c01.curve2" else "Curve3", len(c["pts"]), c["tol"], ", force closed" if c.get("force_closed") else ""))
        return
    pts, lens = r["points"], r["lengths"]
    # tolerance de-duplication leaves consecutive vertices farther apart than the tolerance: no zero-length edge survives
    for i in range(len(pts) - 1):
        if norm(sub(pts[i + 1], pts[i])) <= c["tol"] and not (c.get("force_closed") and i == len(pts) - 2):
            yield ("dedup-spacing", "vertices %d and %d of the built curve are %r apart, tolerance %r" % (i, i + 1, norm(sub(pts[i + 1], pts[i])), c["tol"]))
            break
    L = r["length"]
    scale = max(1.0, L)
    if lens[0] != 0.0:
        yield ("lengths-start", "cumulative lengths start at %r" % (lens[0],))
    if any(b < a for a, b in zip(lens, lens[1:])):
        yield ("lengths-monotone", "cumulative lengths decrease: %r" % (lens,))
    tot = 0.0
    for i in range(len(pts) - 1):
        tot += norm(sub(pts[i + 1], pts[i]))
        if not C.close(lens[i + 1], tot, 1e-9):
            yield ("lengths-sum", "lengths[%d] = %r, sum of edge lengths %r" % (i + 1, lens[i + 1], tot))
            break
    if len(lens) != len(pts) or not C.close(L, lens[-1]):
        yield ("lengths-count", "%d lengths for %d vertices, length() = %r" % (len(lens), len(pts), L))
    for q in r["queries"]:
        l, s = q["l"], q["at_length"]
        inside = 0.0 <= l <= L
        if (s is not None) != inside:
            yield ("station-presence", "at_length(%r) %s (L = %r)" % (l, "returned a station outside [0, L]" if s else "returned nothing inside [0, L]", L))
            continue
        if s is None:
            continue
        i, f = s["index"], s["fraction"]
        if i + 1 >= len(pts) or not (-1e-12 <= f <= 1 + 1e-12):
            yield ("station-index", "at_length(%r): index %r fraction %r on a curve of %d vertices" % (l, i, f, len(pts)))
            continue
        if abs(s["length_along"] - l) > 1e-9 * scale:
            yield ("station-length-along", "at_length(%r) reports length_along %r" % (l, s["length_along"]))
        lerp = [a + (b - a) * f for a, b in zip(pts[i], pts[i + 1])]
        if norm(sub(lerp, s["point"])) > 1e-9 * max(1.0, norm(lerp)):
            yield ("station-lerp", "at_length(%r): point %r but vertices %d,%d at fraction %r give %r" % (l, s["point"], i, i + 1, f, lerp))
        d = s["dir"]
        if not any(math.isnan(x) for x in d):
            if abs(norm(d) - 1.0) > 1e-9:
                yield ("station-dir-unit", "at_length(%r): direction %r is not a unit vector" % (l, d))
            on_vertex = f == 0.0 or f == 1.0
            if not on_vertex:
                e = sub(pts[i + 1], pts[i])
                ne = norm(e)
                if ne > 0 and norm(sub([x / ne for x in e], d)) > 1e-7:
                    yield ("station-dir-edge", "at_length(%r): direction %r is not parallel to edge %d" % (l, d, i))
        # same place by vertex index: a stored vertex length gives that vertex's station
        if l in lens:
            kv = max(j for j, v in enumerate(lens) if v == l)
            want = (kv, 0.0) if kv < len(pts) - 1 else (kv - 1, 1.0)
            if (i, f) != want:
                yield ("station-by-vertex", "at_length(lengths[%d]) gives (index, fraction) = (%r, %r); the vertex station is %r" % (kv, i, f, want))
        # same place by fraction
        t = q["at_fraction"]
        edge_len = lens[i + 1] - lens[i]
        # compare in arc-length units: l/L*L differs from l by rounding of the whole length, which a short edge magnifies
        if t is not None and (abs(t["length_along"] - s["length_along"]) > 1e-9 * scale or
                              (t["index"] != i and min(f, 1 - f) * edge_len > 1e-9 * scale)):
            yield ("station-by-fraction", "at_fraction(%r) gives (%r, %r), at_length(%r) gives (%r, %r)" % (q["f"], t["index"], t["fraction"], l, i, f))
    if k == "c01.curve2":
        for j, s in enumerate(r["iter"]):
            if norm(sub(s["point"], pts[j])) != 0.0:
                yield ("iter-point", "iter() station %d is at %r, vertex is %r" % (j, s["point"], pts[j]))
            want = (j, 0.0) if j < len(pts) - 1 else (j - 1, 1.0)
            if (s["index"], s["fraction"]) != want:
                yield ("iter-index", "iter() station %d has (index, fraction) = (%r, %r)" % (j, s["index"], s["fraction"]))
            if abs(s["length_along"] - lens[j]) > 1e-9 * scale:
                yield ("iter-length", "iter() station %d has length_along %r, stored %r" % (j, s["length_along"], lens[j]))
            # direction at a vertex: the normalised sum of the two adjacent unit edge directions (the first and the closing
            # edge at the seam of a closed curve), the edge direction at the free ends of an open one
            n = len(pts)
            def ed(a):
                e = sub(pts[a + 1], pts[a])
                m = norm(e)
                return [x / m for x in e] if m > 0 else None
            if r["closed"] and j in (0, n - 1):
                pair = (ed(0), ed(n - 2))
            elif j == 0:
                pair = (ed(0), ed(0))
            elif j == n - 1:
                pair = (ed(n - 2), ed(n - 2))
            else:
                pair = (ed(j - 1), ed(j))
            if pair[0] is not None and pair[1] is not None:
                sm = [a + b for a, b in zip(*pair)]
                m = norm(sm)
                d = s["dir"]
                if m > 1e-6 and not any(math.isnan(x) for x in d) and norm(sub([x / m for x in sm], d)) > 1e-7:
                    yield ("vertex-dir", "station at vertex %d of a %s curve of %d vertices has direction %r; the normalised sum of the adjacent edge directions is %r" % (
                        j, "closed" if r["closed"] else "open", n, d, [x / m for x in sm]))
