"""C14  Mesh face selection is set algebra over a per-face predicate."""
import itertools
import math
import common as C
from common import Some, Nat, Raw, opt, coq

LEVEL = "proof"
COQ_IMPORTS = ["Tie.C14"]
RULE = ("meshes with vertices shared between differently oriented faces (folded strips, boxes, fans) against reference "
        "meshes (planes, offset copies, tilted planes); every starting selection kind (none/all/index set); chains of 1-4 "
        "Add/Remove/Keep steps of facing / near_mesh with all tolerance combinations (distance, planar, angle; all-vertices "
        "and any-vertex); each chain is run 4 times in-process (fresh HashSet order) and the model is run under two "
        "different iteration orders. trivial = empty chain; distinct = distinct (tag, input)")
TRUSTED_BASE = [
    "Coq 8.16.1 kernel and vm_compute",
    "hand-written model coq/Model/Select.v; per-vertex projection facts and per-face angle facts are oracles computed by the harness through the public API without any cache (harness/src/c14.rs)",
    "differential tie Tie/C14.v: selection after every step compared as a set; create_from_indices compared exactly",
]
ASSUMPTIONS = [
    "whether a vertex projects within the distance/planar tolerance and whether two normals are within the angle tolerance are geometric facts taken from parry through engeom's API (closest-point correctness is C02)",
    "HashSet iteration order is modelled as an arbitrary permutation of the selection",
    "an empty selection cannot be turned into a mesh (parry's TriMesh rejects an empty triangle list); create_from_indices is explored for non-empty selections",
]


def strip(n, fold):
    """a strip of n quads along x, folded up by `fold` radians after the first quad"""
    verts, faces = [], []
    x, z = 0.0, 0.0
    ang = 0.0
    for i in range(n + 1):
        verts += [[x, 0.0, z], [x, 1.0, z]]
        if i >= 1:
            ang = fold
        x += math.cos(ang)
        z += math.sin(ang)
    for i in range(n):
        a, b, c, d = 2 * i, 2 * i + 1, 2 * i + 3, 2 * i + 2
        faces += [[a, d, c], [a, c, b]]
    return verts, faces


BOXV = [[0, 0, 0], [1, 0, 0], [0, 0, 1], [1, 0, 1], [0, 1, 0], [1, 1, 0], [0, 1, 1], [1, 1, 1]]
BOXF = [[4, 7, 5], [4, 6, 7], [0, 2, 4], [2, 6, 4], [0, 1, 2], [1, 3, 2], [1, 5, 7], [1, 7, 3], [2, 3, 7], [2, 7, 6], [0, 4, 1], [1, 4, 5]]


def rnd_mesh(rng):
    r = rng.random()
    if r < 0.5:
        v, f = strip(rng.randint(1, 3), rng.choice([0.3, 0.8, math.pi / 2, 2.0]))
    elif r < 0.8:
        v, f = [list(map(float, p)) for p in BOXV], [list(t) for t in BOXF]
    else:
        v = [[0, 0, 0], [1, 0, 0], [0, 1, 0], [0, 0, 1]]
        f = [[0, 1, 2], [0, 3, 1]]
    s = rng.uniform(0.5, 2.0)
    v = [[float(a) * s for a in p] for p in v]
    if rng.random() < 0.3:
        # a face without a normal (three collinear vertices): judged by its vertices alone unless an angle is asked for
        a, b = rng.sample(range(len(v)), 2)
        v.append([(x + y) / 2 for x, y in zip(v[a], v[b])])
        f = [list(t) for t in f] + [[a, b, len(v) - 1]]
    return v, f


def rnd_ref(rng, verts):
    r = rng.random()
    z = rng.choice([0.0, 0.0, 0.05, -0.05, 0.3])
    tilt = rng.choice([0.0, 0.0, 0.1, 0.5])
    big = 6.0
    rv = [[-big, -big, z - big * tilt], [big, -big, z + big * tilt], [big, big, z + big * tilt], [-big, big, z - big * tilt]]
    rf = [[0, 1, 2], [0, 2, 3]]
    if r < 0.25:   # add a vertical wall
        rv += [[-big, -0.01, -big], [big, -0.01, -big], [big, -0.01, big], [-big, -0.01, big]]
        rf += [[4, 6, 5], [4, 7, 6]]
    return rv, rf


def rnd_step(rng):
    mode = rng.choice(["add", "remove", "keep"])
    if rng.random() < 0.3:
        n = rng.choice([[0, 0, 1], [0, 0, -1], [1, 0, 0], [0, 1, 0], [1, 0, 1]])
        return {"op": "facing", "normal": [float(x) for x in n], "angle": rng.choice([0.3, math.pi / 4, math.pi / 2, 2.0]), "mode": mode}
    return {"op": "near", "all": rng.random() < 0.5, "dist": rng.choice([0.02, 0.1, 0.6, 5.0]),
            "planar": rng.choice([None, None, 0.01, 0.2, 0.0]), "angle": rng.choice([None, 0.1, 0.6, 1.6, 0.0]), "mode": mode}      # a tolerance of zero is a tolerance, not "none"


def gen_select(rng):
    v, f = rnd_mesh(rng)
    rv, rf = rnd_ref(rng, v)
    r = rng.random()
    if r < 0.3:
        start = "none"
    elif r < 0.6:
        start = "all"
    else:
        start = sorted(rng.sample(range(len(f)), rng.randint(0, len(f))))
    steps = [rnd_step(rng) for _ in range(rng.choice([1, 1, 2, 3, 4]))]
    return {"k": "c14.select", "verts": v, "faces": f, "rverts": rv, "rfaces": rf, "start": start, "steps": steps, "reps": 4}


def gen_from(rng):
    v, f = rnd_mesh(rng)
    idx = [rng.randrange(len(f)) for _ in range(rng.randint(1, len(f)))]
    if rng.random() < 0.5:
        idx = sorted(set(idx))
    return {"k": "c14.from_indices", "verts": v, "faces": f, "idx": idx}


def corpus():
    # D12 witness (fixed): two perpendicular faces sharing an edge, Keep with an angle tolerance
    yield {"k": "c14.select", "verts": [[0.0, 0.0, 0.0], [1.0, 0.0, 0.0], [0.0, 1.0, 0.0], [0.0, 0.0, 1.0]], "faces": [[0, 1, 2], [0, 3, 1]],
           "rverts": [[-1.0, -1.0, 0.0], [2.0, -1.0, 0.0], [-1.0, 2.0, 0.0]], "rfaces": [[0, 1, 2]], "start": "all", "reps": 12,
           "steps": [{"op": "near", "all": False, "dist": 0.5, "planar": None, "angle": 0.1, "mode": "keep"}]}
    yield {"k": "c14.select", "verts": [[0.0, 0.0, 0.0], [1.0, 0.0, 0.0], [0.0, 1.0, 0.0], [0.0, 0.0, 1.0]], "faces": [[0, 3, 1], [0, 1, 2]],
           "rverts": [[-1.0, -1.0, 0.0], [2.0, -1.0, 0.0], [-1.0, 2.0, 0.0]], "rfaces": [[0, 1, 2]], "start": "none", "reps": 6,
           "steps": [{"op": "near", "all": False, "dist": 0.5, "planar": None, "angle": 0.1, "mode": "add"}]}
    yield {"k": "c14.from_indices", "verts": [list(map(float, p)) for p in BOXV], "faces": BOXF, "idx": [4, 5, 0]}


def generate(rng, tier):
    n = 120 if tier == "quick" else 1500
    out = []
    for _ in range(n):
        out.append(gen_select(rng))
    for _ in range(n // 3):
        out.append(gen_from(rng))
    return out


def start_list(c, nf):
    if c["start"] == "none":
        return []
    if c["start"] == "all":
        return list(range(nf))
    return list(c["start"])


def tag(c, r):
    k = c["k"]
    if r.get("panic"):
        return k + ":panic"
    if k == "c14.select":
        kinds = "".join(("F" if s["op"] == "facing" else ("A" if s["angle"] is not None else "N")) + s["mode"][0] for s in c["steps"])
        st = c["start"] if isinstance(c["start"], str) else "idx"
        return "%s:%s:%s" % (k, st, kinds)
    return "%s:n%d" % (k, min(len(c["idx"]), 6) // 2)


MODE = {"add": "OpAdd", "remove": "OpRemove", "keep": "OpKeep"}


def coq_check(c, r):
    k = c["k"]
    if r.get("panic"):
        return "1000%Z" if k == "c14.select" else None
    if k == "c14.select":
        faces = [tuple(Nat(x) for x in f) for f in r["faces"]]
        steps = []
        for s, fact in zip(c["steps"], r["facts"]):
            if s["op"] == "facing":
                steps.append(Raw("(SFacing %s %s)" % (coq([bool(b) for b in fact["face_pred"]]), MODE[s["mode"]])))
            else:
                vp = [(bool(ok), (None if ri is None else Some(Nat(ri)))) for ok, ri in fact["vpart"]]
                ang = [[bool(b) for b in row] for row in fact["ang"]]
                steps.append(Raw("(SNear %s %s %s %s %s)" % (coq(bool(s["all"])), coq(vp), coq(ang), coq(s["angle"] is not None), MODE[s["mode"]])))
        runs = [[[Nat(i) for i in sel] for sel in run] for run in r["runs"]]
        return "check_select %s %s %s %s" % (coq(faces), coq([Nat(i) for i in start_list(c, len(faces))]), coq(steps), coq(runs))
    if k == "c14.from_indices":
        faces = [tuple(Nat(x) for x in f) for f in c["faces"]]
        # recover the old id of each new vertex: the i-th new triangle is the i-th selected face, corner by corner (coordinates alone
        # do not identify a vertex when the mesh repeats a position; they are the fallback when the triangle counts differ)
        old_of = {}
        if len(r["faces"]) == len(c["idx"]):
            for i, t in zip(c["idx"], r["faces"]):
                for a, b in zip(c["faces"][i], t):
                    old_of.setdefault(b, a)
        keep = []
        for j, v in enumerate(r["verts"]):
            keep.append(Nat(old_of[j] if j in old_of and [float(x) for x in c["verts"][old_of[j]]] == [float(x) for x in v]
                            else c["verts"].index([float(x) for x in v])))
        rust = Some((keep, [tuple(Nat(x) for x in f) for f in r["faces"]]))
        return "check_from_indices %s %s %s" % (coq(faces), coq([Nat(i) for i in c["idx"]]), coq(rust))
    return None


def pure_face(c, step, fact, f):
    if step["op"] == "facing":
        return bool(fact["face_pred"][f])
    res = []
    for v in c["faces"][f]:
        ok, ri = fact["vpart"][v]
        if not ok:
            res.append(False)
        elif step["angle"] is not None and ri is not None:
            res.append(bool(fact["ang"][f][ri]))
        else:
            res.append(True)
    return all(res) if step["all"] else any(res)


def oracle(c, r):
    k = c["k"]
    if r.get("panic"):
        yield (k[4:] + "-panic", "%s panicked" % k)
        return
    if k == "c14.select":
        nf = len(c["faces"])
        for run in r["runs"]:
            sel = set(start_list(c, nf))
            for s, fact, got in zip(c["steps"], r["facts"], run):
                sat = set(f for f in range(nf) if pure_face(c, s, fact, f))
                want = sel | sat if s["mode"] == "add" else (sel - sat if s["mode"] == "remove" else sel & sat)
                if set(got) != want:
                    yield ("select-set-algebra", "step %r on selection %r gave %r; faces satisfying the criterion are %r so the result must be %r"
                           % (s, sorted(sel), got, sorted(sat), sorted(want)))
                    return
                sel = set(got)
        if any(run != r["runs"][0] for run in r["runs"]):
            yield ("select-unstable", "the same chain gave different selections in different runs: %r" % (r["runs"],))
    elif k == "c14.from_indices":
        verts = [[float(x) for x in v] for v in c["verts"]]
        nv = r["verts"]
        if len(r["faces"]) != len(c["idx"]):
            yield ("from-count", "%d triangles for %d selected faces" % (len(r["faces"]), len(c["idx"])))
            return
        for i, t in zip(c["idx"], r["faces"]):
            old = c["faces"][i]
            for a, b in zip(old, t):
                if [float(x) for x in nv[b]] != verts[a]:
                    yield ("from-triangle", "selected face %r was rebuilt with different coordinates or winding" % (old,))
                    return
        used = set(x for t in r["faces"] for x in t)
        if used != set(range(len(nv))):
            yield ("from-unused-vertex", "the new mesh has %d vertices but its triangles use %r" % (len(nv), sorted(used)))
        want_nv = len(set(x for i in c["idx"] for x in c["faces"][i]))
        if len(nv) != want_nv:
            yield ("from-vertex-count", "%d vertices, the selected faces use %d" % (len(nv), want_nv))
