#!/bin/sh
# collect_g.sh C17 : copy deliverables of round g and confirm
p=$1; id=${p}g; wt=/tmp/wt_$id; d=/verif/seeded/${p}_g
mkdir -p $d
cp $wt/patch.diff $d/patch.diff && cp $wt/tests/seed_demo.rs $d/seed_demo.rs; cp $wt/SEED_NOTES.md $d/SEED_NOTES.md 2>/dev/null
/tmp/confirm_seed.sh $id > /tmp/confirm_$id.log 2>&1
cat /tmp/confirm_$id.log
