#!/bin/sh
# confirm_seed.sh C01d : in the agent's worktree: suite passes with change, demo fails with, demo passes without
id=$1; wt=/tmp/wt_$id
cd $wt || exit 2
export CARGO_TARGET_DIR=$wt/target CARGO_NET_OFFLINE=true
git apply -R --check patch.diff 2>/dev/null || { git checkout -q -- src; git apply patch.diff || { echo "$id patch-does-not-apply"; exit 2; }; }
mv tests/seed_demo.rs /tmp/seed_demo_$id.rs
s=$(cargo test --offline 2>&1 | grep -E "^test result" | tr '\n' ' ')
mv /tmp/seed_demo_$id.rs tests/seed_demo.rs
dw=$(cargo test --offline --test seed_demo 2>&1 | grep -E "^test result" | tr '\n' ' ')
git apply -R patch.diff
dwo=$(cargo test --offline --test seed_demo 2>&1 | grep -E "^test result" | tr '\n' ' ')
git apply patch.diff
echo "$id SUITE-WITH: $s | DEMO-WITH: $dw | DEMO-WITHOUT: $dwo"
