#!/bin/sh
# parseeds.sh K : K parallel workers, each with its own worktree of /repo (/tmp/rw_k) and copy of /verif (/tmp/vw_k)
K=${1:-4}
cp "$2" /tmp/parseeds.list
rm -f /tmp/parseeds_out_*.log
for k in $(seq 1 $K); do
  (
    rw=/tmp/rw_$k; vw=/tmp/vw_$k
    rm -rf $vw; git -C /repo worktree remove --force $rw 2>/dev/null; rm -rf $rw
    git -C /repo worktree add -q --detach $rw HEAD
    mkdir -p $vw && rsync -a --exclude .git --exclude work --exclude 'seeded' /verif/ $vw/ && mkdir -p $vw/work $vw/evidence
    sed -i "s#path = \"/repo\"#path = \"$rw\"#" $vw/harness/Cargo.toml
    sed -i "s#^REPO = \"/repo\"#REPO = \"$rw\"#" $vw/tools/common.py
    i=0
    while read n; do
      i=$((i+1)); [ $(( (i - 1) % K + 1 )) -eq $k ] || continue
      p=${n%_*}
      git -C $rw apply /verif/seeded/$n/patch.diff 2>/dev/null || { echo "$n patch-does-not-apply" >> /tmp/parseeds_out_$k.log; continue; }
      out=$(cd $vw && bin/vcheck $p quick 2>&1); rc=$?
      git -C $rw checkout -- .
      key=$(echo "$out" | grep -E "^  [a-z0-9-]+:|translator tie" | head -1 | cut -c1-90)
      echo "$n rc=$rc $key" >> /tmp/parseeds_out_$k.log
    done < /tmp/parseeds.list
    git -C /repo worktree remove --force $rw; rm -rf $vw
    echo "worker $k done" >> /tmp/parseeds_out_$k.log
  ) &
done
wait
cat /tmp/parseeds_out_*.log | sort > /tmp/parseeds_all.log
echo finished
