#!/bin/sh
# seedrun.sh C01 : copy deliverables from /tmp/wt_C01d to /verif/seeded/C01_d and run the seed test
P=$1; wt=/tmp/wt_${P}e; D=/verif/seeded/${P}_e
mkdir -p $D && cp $wt/patch.diff $D/patch.diff && cp $wt/tests/seed_demo.rs $D/seed_demo.rs && cp $wt/SEED_NOTES.md $D/SEED_NOTES.md
cd /verif && echo "== $P" && tools/seedtest.sh $P seeded/${P}_e
