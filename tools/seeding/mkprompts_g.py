import json,re
props=[json.loads(l) for l in open('/verif/properties.jsonl')]
base=open('/tmp/seed_prompt_C12.txt').read()
# split the template: header before "ID:", tail from "Your task"
head=base[:base.index('ID: C12')]
tail=base[base.index('Your task:'):]
print(props[0].keys())
for p in props:
    pid=p['id']
    prev=[]
    for r in 'abcdef':
        try:
            m=json.load(open(f'/verif/seeded/{pid}_{r}/meta.json'))
            prev.append(m['breaks'])
        except Exception as e: print('no meta',pid,r,e)
    wt=f'/tmp/wt_{pid}g'
    h=head.replace('/tmp/wt_C12',wt); t=tail.replace('/tmp/wt_C12',wt)
    body=open(f'/tmp/seed_prompt_{pid}.txt').read()
    body=body[body.index('ID: '):body.index('Your task:')]
    # strip any earlier-exercise paragraph
    body=re.sub(r'Earlier exercises already.*?\n\n','',body,flags=re.S)
    earlier="Earlier exercises already made these changes: "+" ".join(f'({i+1}) "{b}";' for i,b in enumerate(prev))+" Choose a DIFFERENT function and, if possible, a different clause of the property from all of them; prefer functions named under FILES / MECHANISMS / OBSERVE AT that none of these touched, and prefer a change that needs a multi-step history, two cooperating sites that each look fine alone, a particular iteration order, or an input class that generic random data never contains (exact ties, repeated values, degenerate shapes, extreme but legitimate magnitudes); its effect may be small in magnitude. Avoid changes that only alter behaviour for NaN or infinite inputs. Look through EVERY public function of the listed FILES (not only the ones named above) for one that no earlier change touched; a rarely used public entry point, a second constructor, a convenience wrapper or a 3D twin of a 2D function is a good place. Do NOT use `git stash` (the stash is shared between worktrees): to test both directions use `git diff > patch.diff; git apply -R patch.diff; ...; git apply patch.diff`.\n\n"
    open(f'/tmp/seed_prompt_{pid}g.txt','w').write(h+body.rstrip()+"\n\n"+earlier+t)
