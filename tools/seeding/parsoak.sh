#!/bin/sh
# parsoak.sh K file : file has lines "<property> <seed> <tier>"; K workers with private copies, unchanged tree
K=${1:-8}; cp "$2" /tmp/parsoak.list; rm -f /tmp/parsoak_out_*.log
for k in $(seq 1 $K); do
  (
    rw=/tmp/rw_$k; vw=/tmp/vw_$k
    rm -rf $vw; git -C /repo worktree remove --force $rw 2>/dev/null; rm -rf $rw
    git -C /repo worktree add -q --detach $rw HEAD
    mkdir -p $vw && rsync -a --exclude .git --exclude work --exclude seeded /verif/ $vw/ && mkdir -p $vw/work $vw/evidence
    sed -i "s#path = \"/repo\"#path = \"$rw\"#" $vw/harness/Cargo.toml
    sed -i "s#^REPO = \"/repo\"#REPO = \"$rw\"#" $vw/tools/common.py
    i=0
    while read p s t; do
      i=$((i+1)); [ $(( (i - 1) % K + 1 )) -eq $k ] || continue
      out=$(cd $vw && VERIF_SEED=$s bin/vcheck $p $t 2>&1); rc=$?
      echo "$p seed=$s $t rc=$rc $(echo "$out" | grep -E '^  [a-z0-9-]+:' | head -2 | cut -c1-200 | tr '\n' '|')" >> /tmp/parsoak_out_$k.log
      [ $rc -ne 0 ] && cp $vw/work/replays/${p}_seed${s}_0.json /tmp/parsoak_fail_${p}_${s}.json 2>/dev/null
    done < /tmp/parsoak.list
    git -C /repo worktree remove --force $rw; rm -rf $vw
    echo "worker $k done" >> /tmp/parsoak_out_$k.log
  ) &
done
wait
cat /tmp/parsoak_out_*.log | sort > /tmp/parsoak_all.log
