#!/usr/bin/env python3
"""rs2v: a deliberately small translator from the scalar, straight-line subset of Rust that engeom's
kernels are written in to Gallina definitions over the arithmetic signature EG.Num.Num.

Supported: fn items and impl methods whose parameters/locals are f64, bool, small field-less enums and
structs of f64 (by value or reference); let / let mut with `=`, `+=`, `-=`, `*=`, `/=` (SSA-converted),
if / else if / else as statement or expression, match on a field-less enum, early `return`, arithmetic,
comparisons, && || !, the f64 methods abs min max sqrt atan2 asin acos sin cos powi is_nan signum,
struct literals, Some/None, named constants (PI, FRAC_PI_2 and module consts).  `assert!(c);` at the head
of a function is collected into a separate `<fn>__asserts` boolean definition.

Anything outside the subset raises Unsupported for that function only.
"""
import re
import sys


class Unsupported(Exception):
    pass


TOKEN = re.compile(r"""
    (?P<ws>\s+|//[^\n]*|/\*.*?\*/)
  | (?P<str>"(?:[^"\\]|\\.)*")
  | (?P<num>\d[\d_]*(?:\.\d[\d_]*)?(?:[eE][+-]?\d+)?(?:_?f64|_?usize|_?u32|_?i32)?)
  | (?P<id>[A-Za-z_][A-Za-z0-9_]*!?)
  | (?P<op>::|->|=>|<=|>=|==|!=|&&|\|\||\+=|-=|\*=|/=|\.\.|[-+*/%<>=!&|.,;:(){}\[\]#?'])
""", re.X | re.S)


def tokenize(src):
    out = []
    pos = 0
    while pos < len(src):
        m = TOKEN.match(src, pos)
        if not m:
            raise Unsupported("cannot tokenize at %r" % src[pos:pos + 20])
        pos = m.end()
        if m.lastgroup == "ws":
            continue
        out.append((m.lastgroup, m.group(m.lastgroup)))
    return out


# ------------------------------------------------------------------ parsing

class P:
    def __init__(self, toks):
        self.t = toks
        self.i = 0

    def peek(self, k=0):
        return self.t[self.i + k] if self.i + k < len(self.t) else ("eof", "")

    def next(self):
        tok = self.peek()
        self.i += 1
        return tok

    def accept(self, v):
        if self.peek()[1] == v:
            self.i += 1
            return True
        return False

    def expect(self, v):
        if not self.accept(v):
            raise Unsupported("expected %r, got %r" % (v, self.peek()[1]))

    # ---- types (kept as strings)
    def ty(self):
        s = ""
        depth = 0
        while True:
            k, v = self.peek()
            if depth == 0 and v in (",", ")", "{", "=", ";", ">") or k == "eof":
                break
            if v == "<":
                depth += 1
            if v == ">":
                depth -= 1
            s += v
            self.i += 1
        return s.replace("&", "").replace("mut", "").replace("'a", "").strip()

    # ---- expressions
    def expr(self, nostruct=False):
        return self.or_(nostruct)

    def or_(self, ns):
        l = self.and_(ns)
        while self.peek()[1] == "||":
            self.next()
            l = ("bin", "||", l, self.and_(ns))
        return l

    def and_(self, ns):
        l = self.cmp(ns)
        while self.peek()[1] == "&&":
            self.next()
            l = ("bin", "&&", l, self.cmp(ns))
        return l

    def cmp(self, ns):
        l = self.add(ns)
        if self.peek()[1] in ("<", "<=", ">", ">=", "==", "!="):
            op = self.next()[1]
            l = ("bin", op, l, self.add(ns))
        return l

    def add(self, ns):
        l = self.mul(ns)
        while self.peek()[1] in ("+", "-"):
            op = self.next()[1]
            l = ("bin", op, l, self.mul(ns))
        return l

    def mul(self, ns):
        l = self.cast(ns)
        while self.peek()[1] in ("*", "/", "%"):
            op = self.next()[1]
            l = ("bin", op, l, self.cast(ns))
        return l

    def cast(self, ns):
        e = self.unary(ns)
        while self.peek()[1] == "as":
            self.next()
            t = self.ty()
            e = ("as", e, t)
        return e

    def unary(self, ns):
        v = self.peek()[1]
        if v == "-":
            self.next()
            return ("neg", self.unary(ns))
        if v == "!":
            self.next()
            return ("not", self.unary(ns))
        if v in ("&", "*"):
            self.next()
            if self.peek()[1] == "mut":
                self.next()
            return self.unary(ns)
        return self.postfix(ns)

    def args(self):
        a = []
        self.expect("(")
        while not self.accept(")"):
            a.append(self.expr())
            self.accept(",")
        return a

    def postfix(self, ns):
        e = self.primary(ns)
        while True:
            v = self.peek()[1]
            if v == ".":
                self.next()
                k, name = self.next()
                if k == "num":
                    e = ("field", e, name)
                elif self.peek()[1] == "(":
                    e = ("mcall", e, name, self.args())
                else:
                    e = ("field", e, name)
            elif v == "(" and e[0] == "path":
                e = ("call", e[1], self.args())
            elif v == "[":
                self.next()
                idx = self.expr()
                self.expect("]")
                e = ("index", e, idx)
            elif v == "?":
                self.next()
                e = ("try", e)
            else:
                return e

    def primary(self, ns):
        k, v = self.next()
        if k == "num":
            return ("num", v)
        if k == "str":
            return ("str", v)
        if v == "(":
            e = self.expr()
            if self.peek()[1] == "..":
                self.next()
                incl = self.accept("=")
                hi = self.expr()
                self.expect(")")
                return ("range", e, hi, bool(incl))
            if self.accept(","):
                items = [e]
                while not self.accept(")"):
                    items.append(self.expr())
                    self.accept(",")
                return ("tuple", items)
            self.expect(")")
            return ("paren", e)
        if v == "if":
            return self.if_()
        if v == "match":
            return self.match_()
        if v == "{":
            self.i -= 1
            return ("block", self.block())
        if k == "id":
            path = [v]
            while self.peek()[1] == "::":
                self.next()
                path.append(self.next()[1])
            if v in ("true", "false") and len(path) == 1:
                return ("bool", v == "true")
            if self.peek()[1] == "{" and not ns and path[-1][0].isupper():
                return self.struct_lit(path)
            return ("path", path)
        raise Unsupported("unexpected token %r" % v)

    def struct_lit(self, path):
        self.expect("{")
        fields = []
        while not self.accept("}"):
            name = self.next()[1]
            if self.accept(":"):
                fields.append((name, self.expr()))
            else:
                fields.append((name, ("path", [name])))
            self.accept(",")
        return ("struct", path, fields)

    def if_(self):
        if self.peek()[1] == "let":
            # if let Some(x) = E / if let Some((a, b)) = E
            self.next()
            if self.next()[1] != "Some":
                raise Unsupported("if let pattern")
            self.expect("(")
            if self.accept("("):
                pv = [self.next()[1]]
                while self.accept(","):
                    pv.append(self.next()[1])
                self.expect(")")
            else:
                pv = [self.next()[1]]
            self.expect(")")
            self.expect("=")
            scrut = self.expr(nostruct=True)
            th = self.block()
            el = None
            if self.accept("else"):
                el = [("expr", self.if_())] if self.accept("if") else self.block()
            return ("iflet", pv, scrut, th, el)
        c = self.expr(nostruct=True)
        th = self.block()
        el = None
        if self.accept("else"):
            if self.accept("if"):
                el = [("expr", self.if_())]
            else:
                el = self.block()
        return ("if", c, th, el)

    def match_(self):
        scrut = self.expr(nostruct=True)
        self.expect("{")
        arms = []
        while not self.accept("}"):
            pat = [self.next()[1]]
            while self.peek()[1] == "::":
                self.next()
                pat.append(self.next()[1])
            self.expect("=>")
            if self.peek()[1] == "{":
                body = ("block", self.block())
            else:
                body = self.expr()
            self.accept(",")
            arms.append((pat, body))
        return ("match", scrut, arms)

    # ---- statements
    def block(self):
        self.expect("{")
        stmts = []
        while not self.accept("}"):
            stmts.append(self.stmt())
        return stmts

    def stmt(self):
        k, v = self.peek()
        if v == "let":
            self.next()
            self.accept("mut")
            name = self.next()[1]
            ty = None
            if self.accept(":"):
                ty = self.ty()
            self.expect("=")
            e = self.expr()
            self.expect(";")
            return ("let", name, e, ty)
        if v == "return":
            self.next()
            e = self.expr()
            self.accept(";")
            return ("return", e)
        if v == "assert!":
            self.next()
            a = self.args()
            self.accept(";")
            return ("assert", a[0])
        if v == "use":
            while self.next()[1] != ";":
                pass
            return ("nop",)
        e = self.expr()
        op = self.peek()[1]
        if op in ("=", "+=", "-=", "*=", "/="):
            self.next()
            rhs = self.expr()
            self.expect(";")
            if e[0] != "path" or len(e[1]) != 1:
                raise Unsupported("assignment to non-variable")
            if op != "=":
                rhs = ("bin", op[0], e, rhs)
            return ("assign", e[1][0], rhs)
        if self.accept(";"):
            return ("sexpr", e)
        return ("expr", e)


# ------------------------------------------------------------------ item extraction

def strip_comments(src):
    src = re.sub(r"//[^\n]*", "", src)
    return re.sub(r"/\*.*?\*/", "", src, flags=re.S)


def find_matching(src, i):
    depth = 0
    while i < len(src):
        if src[i] == "{":
            depth += 1
        elif src[i] == "}":
            depth -= 1
            if depth == 0:
                return i
        i += 1
    raise Unsupported("unbalanced braces")


def extract_items(src, trait_impls=()):
    """Returns (fns, structs, enums, consts). fns: list of dict(name, owner, params, ret, body_src)."""
    src = strip_comments(src)
    # drop test modules
    m = re.search(r"#\[cfg\(test\)\]\s*mod\s+\w+\s*\{", src)
    if m:
        end = find_matching(src, m.end() - 1)
        src = src[:m.start()] + src[end + 1:]
    structs, enums, consts, fns = {}, {}, {}, []
    for m in re.finditer(r"\bstruct\s+(\w+)\s*\{", src):
        end = find_matching(src, m.end() - 1)
        body = src[m.end():end]
        fields = re.findall(r"(?:pub(?:\([^)]*\))?\s+)?(\w+)\s*:\s*([^,\n]+)", body)
        structs[m.group(1)] = [(f, t.strip()) for f, t in fields]
    for m in re.finditer(r"\benum\s+(\w+)\s*\{", src):
        end = find_matching(src, m.end() - 1)
        body = src[m.end():end]
        enums[m.group(1)] = [v.strip() for v in body.split(",") if v.strip()]
    for m in re.finditer(r"\bconst\s+(\w+)\s*:\s*f64\s*=\s*([^;]+);", src):
        consts[m.group(1)] = m.group(2).strip()

    def scan_fns(text, owner):
        for m in re.finditer(r"\bfn\s+(\w+)\s*(?:<[^>]*>)?\s*\(", text):
            # parameters up to the matching paren
            i = m.end() - 1
            depth = 0
            j = i
            while True:
                if text[j] == "(":
                    depth += 1
                elif text[j] == ")":
                    depth -= 1
                    if depth == 0:
                        break
                j += 1
            params_src = text[i + 1:j]
            k = text.index("{", j)
            ret = text[j + 1:k].replace("->", "").strip()
            if "where" in ret:
                continue
            end = find_matching(text, k)
            fns.append({"name": m.group(1), "owner": owner, "params_src": params_src, "ret": ret,
                        "body_src": text[k:end + 1]})

    # impl blocks
    consumed = []
    for m in re.finditer(r"\bimpl(?:<[^>]*>)?\s+(?:(\w+)(?:<[^>]*>)?\s+for\s+)?(\w+)(?:<[^>]*>)?\s*\{", src):
        end = find_matching(src, m.end() - 1)
        if m.group(1) is None or m.group(1) in trait_impls:
            scan_fns(src[m.end():end], m.group(2))
        consumed.append((m.start(), end))
    top = src
    for a, b in sorted(consumed, reverse=True):
        top = top[:a] + top[b + 1:]
    # drop trait blocks
    for m in list(re.finditer(r"\btrait\s+\w+[^{]*\{", top))[::-1]:
        end = find_matching(top, m.end() - 1)
        top = top[:m.start()] + top[end + 1:]
    scan_fns(top, None)
    return fns, structs, enums, consts


# ------------------------------------------------------------------ translation

VEC = {"Point2": 2, "Vector2": 2, "UnitVec2": 2, "Point3": 3, "Vector3": 3, "UnitVec3": 3}


def vdim(t):
    return VEC.get((t or "").replace("&", "").strip())


F64_METHODS = {"abs": "nabs", "sqrt": "nsqrt", "sin": "nsin", "cos": "ncos", "asin": "nasin", "acos": "nacos",
               "floor": "nfloor", "ceil": "nceil"}


def lit(v):
    v = re.sub(r"_?(f64|usize|u32|i32)$", "", v).replace("_", "")
    m = re.fullmatch(r"(\d+)(?:\.(\d+))?(?:[eE]([+-]?\d+))?", v)
    if not m:
        raise Unsupported("literal %s" % v)
    ip, fp, ex = m.group(1), m.group(2) or "", int(m.group(3) or 0)
    digits = (ip + fp).lstrip("0") or "0"
    e = ex - len(fp)
    while digits.endswith("0") and len(digits) > 1:
        digits = digits[:-1]
        e += 1
    if digits == "0":
        return "(nofZ 0)"
    if e == 0:
        return "(nofZ %s)" % digits
    if 0 < e <= 6:
        return "(nofZ %s)" % (digits + "0" * e)
    return "(nlit %s (%d))" % (digits, e)


class Ctx:
    def __init__(self, module, structs, enums, consts, fn_index, known_types):
        self.module = module
        self.structs = structs
        self.enums = enums
        self.consts = consts
        self.fn_index = fn_index      # (owner, name) -> coq name
        self.known_types = known_types
        self.calls = set()


def coq_fn_name(owner, name):
    return "%s_%s" % (owner, name) if owner else name


class Tr:
    def __init__(self, ctx, fn):
        self.c = ctx
        self.fn = fn
        self.owner = fn["owner"]
        self.vars = {}

    def norm_ty(self, t):
        t = (t or "").strip()
        if t in ("Self", "&Self"):
            return self.owner
        if t.startswith("&") and t[1:].strip() in VEC:
            return t[1:].strip()
        return t

    # ---- type inference (coarse: 'f64', 'bool', struct/enum names, 'Option<..>', '?')
    def ty(self, e):
        k = e[0]
        if k == "num":
            return "f64"
        if k == "bool":
            return "bool"
        if k in ("paren",):
            return self.ty(e[1])
        if k == "neg":
            return self.ty(e[1])
        if k == "not":
            return "bool"
        if k == "bin":
            if e[1] in ("<", "<=", ">", ">=", "==", "!=", "&&", "||"):
                return "bool"
            ta, tb = self.ty(e[2]), self.ty(e[3])
            if ta == "Rot2" and vdim(tb) == 2:
                return "Vector2"
            d = vdim(ta) or vdim(tb)
            if d:
                # point - point, point +- vector, vector +- vector, vector * / scalar: all plain coordinate tuples in the model
                if e[1] in ("+", "-") and (ta or "").startswith("Point") and not (tb or "").startswith("Point"):
                    return "Point%d" % d
                return "Vector%d" % d
            return ta
        if k == "path":
            p = e[1]
            if len(p) == 1:
                if p[0] in self.vars:
                    return self.vars[p[0]]
                if p[0] in ("PI", "FRAC_PI_2") or p[0] in self.c.consts:
                    return "f64"
                if p[0] == "None":
                    return "Option<?>"
            if len(p) == 2 and p[0] in self.c.enums:
                return p[0]
            if p[-1] in ("PI", "FRAC_PI_2", "EPSILON", "MAX", "MIN"):
                return "f64"
            return "?"
        if k == "field":
            t = self.ty(e[1])
            if t in self.c.structs:
                for f, ft in self.c.structs[t]:
                    if f == e[2]:
                        return self.norm_ty(ft)
            if e[2] in ("x", "y", "z"):
                return "f64"
            if e[2] == "coords" and vdim(t):
                return "Vector%d" % vdim(t)
            return "?"
        if k == "mcall":
            t = self.ty(e[1])
            if t == "f64":
                return "bool" if e[2] in ("is_nan", "is_finite") else "f64"
            if e[1][0] == "range" and e[2] == "contains":
                return "bool"
            if (t, e[2]) in getattr(self.c, "method_map", {}):
                return self.c.method_map[(t, e[2])][1]
            if e[2] == "ok_or":
                return t
            if vdim(t) and e[2] == "try_normalize":
                return "Option<Vector%d>" % vdim(t)
            if vdim(t):
                if e[2] in ("dot", "norm", "norm_squared", "magnitude"):
                    return "f64"
                if e[2] in ("cross", "normalize", "into_inner", "into", "clone"):
                    return "Vector%d" % vdim(t)
            key = (t, e[2])
            if key in self.c.fn_index:
                return self.norm_ty(self.c.fn_index[key][1])
            return "?"
        if k == "call":
            p = e[1]
            if p == ["Some"]:
                return "Option<%s>" % self.ty(e[2][0])
            owner = self.norm_ty(p[0]) if len(p) == 2 else None
            if len(p) == 2 and p[0] in VEC and p[1] in ("new", "from", "new_normalize", "new_unchecked"):
                return p[0]
            if len(p) == 2 and p[0] == "Unit" and p[1] in ("new_normalize", "new_unchecked"):
                return self.ty(e[2][0])
            if "::".join(p) in getattr(self.c, "call_ty", {}):
                return self.c.call_ty["::".join(p)]
            if p == ["Iso2", "rotation"]:
                return "Rot2"
            if len(p) == 2 and p[0] == "f64":
                return "f64"
            if p == ["dist"]:
                return "f64"
            key = (owner, p[-1])
            if key in self.c.fn_index:
                r = self.c.fn_index[key][1]
                return owner if r in ("Self",) else self.norm_ty(r)
            return "?"
        if k == "struct":
            return self.norm_ty(e[1][-1])
        if k == "index":
            t = self.ty(e[1]) or ""
            if t.startswith("Matrix3") and e[2][0] == "tuple":
                return "f64"
            m = re.fullmatch(r"Vec<(.+)>", t)
            if m:
                return m.group(1)
            return "?"
        if k == "iflet":
            saved = dict(self.vars)
            for v in e[1]:
                self.vars[v] = "f64"
            t = self.ty_block(e[3])
            self.vars = saved
            return t
        if k == "range":
            return "Range"
        if k == "try":
            t = self.ty(e[1])
            m = re.fullmatch(r"(?:Option|Result)<(.+)>", t or "")
            return m.group(1) if m else "?"
        if k == "if":
            return self.ty_block(e[2])
        if k == "match":
            return self.ty(e[2][0][1])
        if k == "block":
            return self.ty_block(e[1])
        return "?"

    def ty_block(self, stmts):
        saved = dict(self.vars)
        t = "?"
        for s in stmts:
            if s[0] == "let":
                self.vars[s[1]] = self.norm_ty(s[3]) if s[3] else self.ty(s[2])
            elif s[0] == "expr":
                t = self.ty(s[1])
            elif s[0] == "return":
                t = self.ty(s[1])
        self.vars = saved
        return t

    # ---- expressions
    def ex(self, e):
        k = e[0]
        if k == "num":
            return lit(e[1])
        if k == "bool":
            return "true" if e[1] else "false"
        if k == "paren":
            return self.ex(e[1])
        if k == "tuple":
            return "(" + ", ".join(self.ex(x) for x in e[1]) + ")"
        if k == "neg":
            d = vdim(self.ty(e[1]))
            if d:
                return "(neg%d %s)" % (d, self.ex(e[1]))
            return "(nneg %s)" % self.ex(e[1])
        if k == "not":
            return "(negb %s)" % self.ex(e[1])
        if k == "as":
            raise Unsupported("cast")
        if k == "bin":
            op, a, b = e[1], e[2], e[3]
            ta = self.ty(a)
            if ta == "?":
                ta = self.ty(b)
            A, B = self.ex(a), self.ex(b)
            if op in ("&&", "||"):
                return "(%s %s %s)" % ("andb" if op == "&&" else "orb", A, B)
            tb = self.ty(b)
            if self.ty(a) == "usize":
                if op == "+" and b[0] == "num" and b[1] == "1":
                    return "(S %s)" % A
                raise Unsupported("usize arithmetic")
            da, db = vdim(self.ty(a)), vdim(tb)
            if self.ty(a) == "Rot2" and db == 2 and op == "*":
                return "(rot2 %s %s)" % (A, B)       # Iso2::rotation(t) * v: unit complex multiplication (Model.Circle.rot2)
            if da or db:
                d = da or db
                if op in ("+", "-") and da and db:
                    return "(%s%d %s %s)" % ("add" if op == "+" else "sub", d, A, B)
                if op in ("*", "/") and da and not db:
                    return "(%s%d %s %s)" % ("scale" if op == "*" else "div", d, A, B)
                raise Unsupported("vector operator %s between %s and %s" % (op, self.ty(a), tb))
            if ta != "f64":
                raise Unsupported("binary %s on %s" % (op, ta))
            tbl = {"+": "nadd", "-": "nsub", "*": "nmul", "/": "ndiv", "%": "nfmod",
                   "<": "nltb", "<=": "nleb", "==": "neqb"}
            if op in tbl:
                return "(%s %s %s)" % (tbl[op], A, B)
            if op == ">":
                return "(nltb %s %s)" % (B, A)
            if op == ">=":
                return "(nleb %s %s)" % (B, A)
            if op == "!=":
                return "(negb (neqb %s %s))" % (A, B)
            raise Unsupported("operator " + op)
        if k == "path":
            p = e[1]
            if len(p) == 1:
                n = p[0]
                if n in self.vars:
                    return self.var(n)
                if n == "PI":
                    return "npi"
                if n == "FRAC_PI_2":
                    return "(ndiv npi (nofZ 2))"
                if n in self.c.consts:
                    return "c_" + n
                if n == "None":
                    return "None"
                raise Unsupported("unknown name " + n)
            if len(p) == 2 and p[0] in self.c.enums:
                return "%s_%s" % (p[0], p[1])
            if p[-1] == "PI":
                return "npi"
            if p[-1] == "FRAC_PI_2":
                return "(ndiv npi (nofZ 2))"
            raise Unsupported("path " + "::".join(p))
        if k == "field":
            t = self.ty(e[1])
            if t in self.c.structs:
                return "(%s_%s %s)" % (t, e[2], self.ex(e[1]))
            if vdim(t) == 3 and e[2] in ("x", "y", "z"):
                return "(%s3 %s)" % (e[2], self.ex(e[1]))
            if e[2] == "coords" and vdim(t):
                return self.ex(e[1])
            if e[2] == "x":
                return "(fst %s)" % self.ex(e[1])
            if e[2] == "y":
                return "(snd %s)" % self.ex(e[1])
            raise Unsupported("field .%s on %s" % (e[2], t))
        if k == "mcall":
            recv, name, args = e[1], e[2], e[3]
            t = self.ty(recv)
            R = None if recv[0] == "range" else self.ex(recv)
            if t == "f64" or (t == "?" and name in F64_METHODS):
                if name in F64_METHODS and not args:
                    return "(%s %s)" % (F64_METHODS[name], R)
                if name in ("min", "max"):
                    return "(n%s %s %s)" % (name, R, self.ex(args[0]))
                if name == "atan2":
                    return "(natan2 %s %s)" % (R, self.ex(args[0]))
                if name == "powi":
                    n = args[0]
                    if n[0] == "num" and n[1] in ("2", "3"):
                        return "(nmul %s %s)" % (R, R) if n[1] == "2" else "(nmul (nmul %s %s) %s)" % (R, R, R)
                    raise Unsupported("powi exponent")
                if name == "signum" and not args:
                    # f64::signum away from -0.0 and NaN (Model.AlignParams.signum)
                    return "(if nltb %s (nofZ 0) then nneg (nofZ 1) else (nofZ 1))" % R
                if name == "is_nan":
                    return "(nisnan %s)" % R
                if name == "is_finite":
                    return "(nfinite %s)" % R
                raise Unsupported("f64 method " + name)
            if recv[0] == "range" and name == "contains" and len(args) == 1:
                x = self.ex(args[0])
                lo, hi = self.ex(recv[1]), self.ex(recv[2])
                return "(andb (nleb %s %s) (%s %s %s))" % (lo, x, "nleb" if recv[3] else "nltb", x, hi)
            if (t, name) in getattr(self.c, "method_map", {}):
                return self.c.method_map[(t, name)][0].format(R, *[self.ex(a) for a in args])
            if name == "ok_or" and len(args) == 1:
                return R                       # Option -> Result with a message: the model keeps the option
            d = vdim(t)
            if d == 3 and name == "try_normalize" and len(args) == 1:
                return "(try_normalize3_min %s %s)" % (R, self.ex(args[0]))
            if d:
                if name == "dot" and len(args) == 1:
                    return "(dot%d %s %s)" % (d, R, self.ex(args[0]))
                if name in ("norm", "magnitude") and not args:
                    return "(norm%d %s)" % (d, R)
                if name == "norm_squared" and not args:
                    return "(nsq%d %s)" % (d, R)
                if name == "cross" and d == 3 and len(args) == 1:
                    return "(cross3 %s %s)" % (R, self.ex(args[0]))
                if name == "normalize" and not args:
                    return "(normalize%d %s)" % (d, R)
                if name in ("into_inner", "into", "clone") and not args:
                    return R
                raise Unsupported("vector method " + name)
            key = (t, name)
            if key in self.c.fn_index:
                self.c.calls.add(self.c.fn_index[key][0])
                return "(%s %s)" % (self.c.fn_index[key][0], " ".join([R] + [self.ex(a) for a in args]))
            raise Unsupported("method %s on %s" % (name, t))
        if k == "call":
            p, args = e[1], e[2]
            if p == ["Some"]:
                return "(Some %s)" % self.ex(args[0])
            if p == ["Ok"]:
                return "(Ok %s)" % self.ex(args[0])
            if p == ["Err"]:
                return "Err"
            owner = self.norm_ty(p[0]) if len(p) == 2 else None
            if len(p) == 2 and p[0] in VEC:
                d = VEC[p[0]]
                if p[1] == "new" and len(args) == d:
                    return "(%s)" % ", ".join(self.ex(a) for a in args) if d == 2 else "(mk3 %s)" % " ".join(self.ex(a) for a in args)
                if p[1] in ("from", "new_unchecked") and len(args) == 1:
                    return self.ex(args[0])
                if p[1] == "new_normalize" and len(args) == 1:
                    return "(normalize%d %s)" % (d, self.ex(args[0]))
            if "::".join(p) in getattr(self.c, "call_map", {}):
                return self.c.call_map["::".join(p)].format(*[self.ex(a) for a in args])
            if p == ["Iso2", "rotation"] and len(args) == 1:
                return self.ex(args[0])
            if len(p) == 2 and p[0] == "f64":
                if p[1] in F64_METHODS and len(args) == 1:
                    return "(%s %s)" % (F64_METHODS[p[1]], self.ex(args[0]))
                if p[1] == "atan2" and len(args) == 2:
                    return "(natan2 %s %s)" % (self.ex(args[0]), self.ex(args[1]))
                if p[1] in ("min", "max") and len(args) == 2:
                    return "(n%s %s %s)" % (p[1], self.ex(args[0]), self.ex(args[1]))
            if p == ["dist"] and len(args) == 2 and vdim(self.ty(args[0])):
                return "(dist%d %s %s)" % (vdim(self.ty(args[0])), self.ex(args[0]), self.ex(args[1]))
            if len(p) == 2 and p[0] == "Unit" and len(args) == 1:
                d = vdim(self.ty(args[0]))
                if d and p[1] == "new_normalize":
                    return "(normalize%d %s)" % (d, self.ex(args[0]))
                if d and p[1] == "new_unchecked":
                    return self.ex(args[0])
            key = (owner, p[-1])
            if key in self.c.fn_index:
                self.c.calls.add(self.c.fn_index[key][0])
                return "(%s %s)" % (self.c.fn_index[key][0], " ".join(self.ex(a) for a in args))
            raise Unsupported("call to " + "::".join(p))
        if k == "struct":
            name = self.norm_ty(e[1][-1])
            if name not in self.c.structs:
                raise Unsupported("struct literal " + name)
            given = dict(e[2])
            vals = []
            for f, _ in self.c.structs[name]:
                if f not in given:
                    raise Unsupported("missing field " + f)
                vals.append(self.ex(given[f]))
            return "(mk_%s %s)" % (name, " ".join(vals))
        if k == "if":
            c = self.ex(e[1])
            if e[3] is None:
                raise Unsupported("if without else as an expression")
            return "(if %s then %s else %s)" % (c, self.block_expr(e[2]), self.block_expr(e[3]))
        if k == "match":
            t = self.ty(e[1])
            if t not in self.c.enums:
                raise Unsupported("match on " + t)
            arms = []
            for pat, body in e[2]:
                if pat[-1] == "_":
                    arms.append("| _ => %s" % self.ex(body))
                else:
                    arms.append("| %s_%s => %s" % (t, pat[-1], self.ex(body)))
            return "(match %s with %s end)" % (self.ex(e[1]), " ".join(arms))
        if k == "iflet":
            if e[4] is None:
                raise Unsupported("if let without else as an expression")
            scr = self.ex(e[2])
            saved = dict(self.vars)
            inner = self.ty(e[2])
            m = re.fullmatch(r"Option<(.+)>", inner or "")
            for v in e[1]:
                self.vars[v] = "f64" if len(e[1]) > 1 else (m.group(1) if m else "?")
            th = self.block_expr(e[3])
            self.vars = saved
            pat = self.var(e[1][0]) if len(e[1]) == 1 else "(" + ", ".join(self.var(v) for v in e[1]) + ")"
            return "(match %s with Some %s => %s | None => %s end)" % (scr, pat, th, self.block_expr(e[4]))
        if k == "index" and re.fullmatch(r"Vec<(.+)>", self.ty(e[1]) or ""):
            inner = re.fullmatch(r"Vec<(.+)>", self.ty(e[1])).group(1)
            dflt = {"Point2": "(nofZ 0, nofZ 0)", "Vector2": "(nofZ 0, nofZ 0)"}.get(inner)
            if dflt is None:
                raise Unsupported("index into Vec<%s>" % inner)
            return "(nth %s %s %s)" % (self.ex(e[2]), self.ex(e[1]), dflt)
        if k == "index":
            t = self.ty(e[1]) or ""
            if t.startswith("Matrix3") and e[2][0] == "tuple" and len(e[2][1]) == 2 and all(x[0] == "num" for x in e[2][1]):
                i, j = int(e[2][1][0][1]), int(e[2][1][1][1])
                if 0 <= i < 3 and 0 <= j < 3:
                    # nalgebra m[(row, column)]; the model holds a 3x3 matrix as its three rows (Model.AlignParams.mrow)
                    return "(%s (mrow %s %d%%nat))" % (["x3", "y3", "z3"][j], self.ex(e[1]), i)
            raise Unsupported("index expression")
        if k == "block":
            return self.block_expr(e[1])
        raise Unsupported("expression kind " + k)

    def var(self, n):
        return {"self": "self"}.get(n, n + "_") if n in ("end", "at", "in", "fix", "with", "as", "return", "fun", "let", "then", "else", "match") else n

    # ---- blocks: statements folded into nested lets; returns a Coq expression
    def block_expr(self, stmts):
        saved = dict(self.vars)
        r = self.stmts(stmts)
        self.vars = saved
        return r

    def assigned(self, stmts):
        s = set()
        for st in stmts:
            if st[0] == "assign":
                s.add(st[1])
            elif st[0] in ("expr", "sexpr") and st[1][0] == "if":
                s |= self.assigned(st[1][2])
                if st[1][3]:
                    s |= self.assigned(st[1][3])
        return s

    def has_return(self, stmts):
        for st in stmts:
            if st[0] == "return":
                return True
            if st[0] in ("expr", "sexpr") and st[1][0] == "if":
                if self.has_return(st[1][2]) or (st[1][3] and self.has_return(st[1][3])):
                    return True
        return False

    def stmts(self, stmts):
        if not stmts:
            return "tt"
        st, rest = stmts[0], stmts[1:]
        k = st[0]
        if k == "nop":
            return self.stmts(rest)
        if k == "assert":
            raise Unsupported("assert! not at function head")
        if k == "let" and st[2][0] == "try":
            # let x = E?;  in a function returning Option / Result: bind, None on failure
            v = self.ex(st[2][1])
            self.vars[st[1]] = self.norm_ty(st[3]) if st[3] else self.ty(st[2])
            return "(match %s with Some %s => %s | None => None end)" % (v, self.var(st[1]), self.stmts(rest))
        if k == "let":
            v = self.ex(st[2])
            self.vars[st[1]] = self.norm_ty(st[3]) if st[3] else self.ty(st[2])
            return "(let %s := %s in %s)" % (self.var(st[1]), v, self.stmts(rest))
        if k == "assign":
            if st[1] not in self.vars:
                raise Unsupported("assignment to unknown variable " + st[1])
            v = self.ex(st[2])
            return "(let %s := %s in %s)" % (self.var(st[1]), v, self.stmts(rest))
        if k == "return":
            return self.ex(st[1])
        if k == "expr" and not rest:
            e = st[1]
            if e[0] == "if" and e[3] is not None and (self.has_return(e[2]) or self.has_return(e[3])):
                return "(if %s then %s else %s)" % (self.ex(e[1]), self.block_expr(e[2]), self.block_expr(e[3]))
            return self.ex(e)
        if k in ("expr", "sexpr") and st[1][0] == "if":
            e = st[1]
            c = self.ex(e[1])
            # early return: if c { ...return.. } rest
            if self.has_return(e[2]) and e[3] is None:
                return "(if %s then %s else %s)" % (c, self.block_expr(e[2]), self.stmts(rest))
            mut = sorted((self.assigned(e[2]) | (self.assigned(e[3]) if e[3] else set())) & set(self.vars))
            if not mut:
                raise Unsupported("statement-if without effect")

            def branch(b):
                saved = dict(self.vars)
                tail = [("expr", ("tuple", [("path", [m]) for m in mut]))] if len(mut) > 1 else [("expr", ("path", [mut[0]]))]
                r = self.stmts_tuple(list(b) + tail)
                self.vars = saved
                return r
            th = branch(e[2])
            el = branch(e[3] if e[3] else [])
            pat = self.var(mut[0]) if len(mut) == 1 else "'(" + ", ".join(self.var(m) for m in mut) + ")"
            return "(let %s := (if %s then %s else %s) in %s)" % (pat, c, th, el, self.stmts(rest))
        raise Unsupported("statement kind %s" % k)

    def stmts_tuple(self, stmts):
        # like stmts, but the tail may be a tuple of variables, and nested statement-ifs end in it
        if len(stmts) == 1 and stmts[0][0] == "expr" and stmts[0][1][0] == "tuple":
            return "(" + ", ".join(self.ex(x) for x in stmts[0][1][1]) + ")"
        st, rest = stmts[0], stmts[1:]
        if st[0] == "expr" and rest:
            st = ("sexpr", st[1])
        if st[0] == "let":
            v = self.ex(st[2])
            self.vars[st[1]] = self.norm_ty(st[3]) if st[3] else self.ty(st[2])
            return "(let %s := %s in %s)" % (self.var(st[1]), v, self.stmts_tuple(rest))
        if st[0] == "assign":
            v = self.ex(st[2])
            return "(let %s := %s in %s)" % (self.var(st[1]), v, self.stmts_tuple(rest))
        if st[0] == "sexpr" and st[1][0] == "if":
            e = st[1]
            c = self.ex(e[1])
            mut = sorted((self.assigned(e[2]) | (self.assigned(e[3]) if e[3] else set())) & set(self.vars))

            def branch(b):
                saved = dict(self.vars)
                tail = [("expr", ("tuple", [("path", [m]) for m in mut]))] if len(mut) > 1 else [("expr", ("path", [mut[0]]))]
                r = self.stmts_tuple(list(b) + tail)
                self.vars = saved
                return r
            th = branch(e[2])
            el = branch(e[3] if e[3] else [])
            pat = self.var(mut[0]) if len(mut) == 1 else "'(" + ", ".join(self.var(m) for m in mut) + ")"
            return "(let %s := (if %s then %s else %s) in %s)" % (pat, c, th, el, self.stmts_tuple(rest))
        if st[0] == "expr" and not rest:
            return self.ex(st[1])
        raise Unsupported("statement in branch: %s" % st[0])

    # ---- function
    def coq_ty(self, t):
        t = self.norm_ty(t)
        if t in getattr(self.c, "type_map", {}):
            return self.c.type_map[t]
        if t == "f64":
            return "num"
        if t == "bool":
            return "bool"
        if t in self.c.structs or t in self.c.enums:
            return t
        if t == "usize":
            return "nat"
        m = re.fullmatch(r"Vec<(.+)>", t)
        if m:
            return "(list %s)" % self.coq_ty(m.group(1))
        if vdim(t) == 2:
            return "(num * num)%type"
        if vdim(t) == 3:
            return "(num * num * num)%type"
        m = re.fullmatch(r"\((.+)\)", t)
        if m and "," in m.group(1):
            parts = [x.strip() for x in split_top(m.group(1))]
            return "(" + " * ".join(self.coq_ty(x) for x in parts) + ")%type"
        m = re.fullmatch(r"Option<(.+)>", t)
        if m:
            return "(option %s)" % self.coq_ty(m.group(1))
        m = re.fullmatch(r"Result<(.+)>", t)
        if m:
            return "(res %s)" % self.coq_ty(m.group(1))
        raise Unsupported("type " + t)

    def translate(self):
        fn = self.fn
        params = []
        for p in [x.strip() for x in split_top(fn["params_src"])]:
            if not p:
                continue
            if p in ("self", "&self", "&mut self", "mut self"):
                params.append(("self", self.owner))
                continue
            n, t = p.split(":", 1)
            n = n.replace("mut", "").strip()
            t = t.replace("&", "").replace("mut ", "").strip()
            params.append((n, self.norm_ty(t)))
        for n, t in params:
            self.vars[n] = t
        body = P(tokenize(fn["body_src"])).block()
        asserts = []
        while body and body[0][0] == "assert":
            asserts.append(body[0][1])
            body = body[1:]
        name = coq_fn_name(self.owner, fn["name"])
        sig = " ".join("(%s : %s)" % (self.var(n), self.coq_ty(t)) for n, t in params)
        ret = self.coq_ty(fn["ret"])
        defs = []
        if asserts:
            conj = self.ex(asserts[0])
            for a in asserts[1:]:
                conj = "(andb %s %s)" % (conj, self.ex(a))
            defs.append("Definition %s__asserts %s : bool := %s." % (name, sig, conj))
        defs.append("Definition %s %s : %s :=\n  %s." % (name, sig, ret, self.stmts(body)))
        return name, defs


def split_top(s):
    out, depth, cur = [], 0, ""
    for ch in s:
        if ch in "<([":
            depth += 1
        if ch in ">)]":
            depth -= 1
        if ch == "," and depth == 0:
            out.append(cur)
            cur = ""
        else:
            cur += ch
    out.append(cur)
    return out


def translate_file(path, module, wanted, types_import, extra_structs=None, extra_enums=None, call_map=None, type_map=None, trait_impls=(),
                   method_map=None, call_ty=None):
    """Translate the wanted functions of a Rust file.
    Returns (coq_text, results) where results = {coq_name: None | error string}."""
    src = open(path).read()
    fns, structs, enums, consts = extract_items(src.replace("\r\n", "\n"), trait_impls)
    own_structs, own_enums = dict(structs), dict(enums)
    if extra_structs:
        structs.update(extra_structs)
    if extra_enums:
        enums.update(extra_enums)
    fn_index = {}
    for f in fns:
        fn_index[(f["owner"], f["name"])] = (coq_fn_name(f["owner"], f["name"]), f["ret"])
    ctx = Ctx(module, structs, enums, consts, fn_index, None)
    ctx.call_map = call_map or {}
    ctx.type_map = type_map or {}
    ctx.method_map = {tuple(k.split(".")): tuple(v) for k, v in (method_map or {}).items()}
    ctx.call_ty = call_ty or {}
    out_defs = {}
    deps = {}
    results = {}
    for f in fns:
        name = coq_fn_name(f["owner"], f["name"])
        if name not in wanted:
            continue
        ctx.calls = set()
        try:
            n, defs = Tr(ctx, f).translate()
            out_defs[n] = defs
            deps[n] = set(ctx.calls)
            results[n] = None
            if len(defs) > 1:
                results[n + "__asserts"] = None
        except Unsupported as e:
            results[name] = "outside the translated subset: %s" % e
        except Exception as e:  # noqa
            results[name] = "translator error: %r" % (e,)
    for w in wanted:
        if w not in results:
            results[w] = "function not found in %s" % path
    # a function whose callee failed cannot be emitted
    changed = True
    while changed:
        changed = False
        for n in list(out_defs):
            for d in deps[n]:
                if d not in out_defs:
                    results[n] = "callee %s was not translated" % d
                    del out_defs[n]
                    changed = True
                    break
    order, seen = [], set()

    def visit(n):
        if n in seen:
            return
        seen.add(n)
        for d in sorted(deps[n]):
            visit(d)
        order.append(n)
    for n in sorted(out_defs):
        visit(n)
    lines = ["(* GENERATED by tools/rs2v.py from %s -- do not edit *)" % path,
             "From Coq Require Import ZArith Bool List.",
             "From EG Require Import Num.Num Lib.Vec %s." % types_import,
             "Section Gen.", "Context {N : Num}."]
    for cname, cexpr in sorted(consts.items()):
        try:
            e = P(tokenize(cexpr)).expr()
            lines.append("Definition c_%s : num := %s." % (cname, Tr(ctx, {"owner": None}).ex(e)))
        except Exception:
            pass
    for n in order:
        lines += out_defs[n]
    lines.append("End Gen.")
    lines.append("Require Import String. Local Open Scope string_scope.")
    for sn, fl in sorted(own_structs.items()):
        lines.append("Definition fields_%s := (%s nil)%%list." % (sn, "".join('"%s" :: ' % f for f, _ in fl)))
    for en, vs in sorted(own_enums.items()):
        lines.append("Definition fields_%s := (%s nil)%%list." % (en, "".join('"%s" :: ' % v for v in vs)))
    return "\n".join(lines) + "\n", results, structs, enums


if __name__ == "__main__":
    txt, res, _, _ = translate_file(sys.argv[1], "X", set(sys.argv[3:]), sys.argv[2])
    print(txt)
    print(res, file=sys.stderr)
