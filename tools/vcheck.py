#!/usr/bin/env python3
"""bin/vcheck <Cxx> quick|thorough  |  bin/vcheck <Cxx> --replay <file>

One run = rebuild (Coq cone + harness against /repo's working tree) -> regenerate the translated
definitions -> proof obligations -> correspondence (model@binary64 in coqc vs implementation) ->
search (property oracles on the implementation's outputs) -> verdict -> evidence.
"""
import collections
import importlib
import json
import os
import random
import re
import sys
import time

sys.path.insert(0, os.path.dirname(os.path.abspath(__file__)))
import common as C  # noqa: E402


def theorem_names(pid):
    src = open(os.path.join(C.COQ, "Properties", pid + ".v")).read()
    src = re.sub(r"\(\*.*?\*\)", "", src, flags=re.S)
    names = re.findall(r"^\s*(?:Theorem|Lemma|Example|Corollary)\s+([\w']+)", src, flags=re.M)
    printed = re.findall(r"^\s*Print Assumptions\s+([\w']+)\.", src, flags=re.M)
    return names, printed


def failing_theorem(pid, out):
    m = re.search(r'File "\./Properties/%s\.v", line (\d+)' % pid, out)
    if not m:
        m2 = re.search(r'File "\./([\w/]+\.v)", line (\d+)', out)
        return ("%s line %s" % (m2.group(1), m2.group(2))) if m2 else "build of the dependency cone"
    line = int(m.group(1))
    src = open(os.path.join(C.COQ, "Properties", pid + ".v")).read().splitlines()
    for i in range(min(line, len(src)) - 1, -1, -1):
        mm = re.match(r"\s*(?:Theorem|Lemma|Example|Corollary)\s+([\w']+)", src[i])
        if mm:
            return mm.group(1)
    return "Properties/%s.v line %d" % (pid, line)


def save_replay(pid, seed, n, payload):
    d = os.path.join(C.WORK, "replays")
    os.makedirs(d, exist_ok=True)
    path = os.path.join(d, "%s_seed%d_%d.json" % (pid, seed, n))
    payload = dict(payload)
    payload["property"] = pid
    payload["seed"] = seed
    payload["replay_cmd"] = "bin/vcheck %s --replay %s" % (pid, path)
    with open(path, "w") as f:
        json.dump(payload, f, indent=1, default=str)
    return path


def evaluate(mod, pid, cases):
    """Run implementation, model and oracles on cases. Returns per-case records."""
    enc = [C.enc(c) for c in cases]
    results = C.run_harness(enc, shards=getattr(mod, "HARNESS_SHARDS", 8))
    terms, term_idx = [], []
    recs = []
    for i, (c, r) in enumerate(zip(cases, results)):
        rec = {"case": enc[i], "result": r, "tag": None, "code": None, "oracle": []}
        try:
            rec["tag"] = mod.tag(c, r)
        except Exception as e:  # noqa
            rec["tag"] = "tag-error"
        if isinstance(r, dict) and r.get("harness_error"):
            rec["oracle"].append(("harness-error", "the implementation runner produced no result for this case"))
        else:
            try:
                rec["oracle"] = list(mod.oracle(c, r))
            except Exception as e:  # noqa
                if isinstance(r, dict) and r.get("panic") and len(r) == 1:
                    # the whole case panicked inside the implementation and the property's oracle has no reading of that
                    rec["oracle"] = [("case-panic", "the implementation panicked on this input (operation %s)" % (c.get("k"),))]
                else:
                    rec["oracle"] = [("oracle-error", "oracle raised %r" % (e,))]
            try:
                t = mod.coq_check(c, r)
            except Exception as e:  # noqa
                t = None
                rec["coq_render_error"] = repr(e)
            if t is not None:
                terms.append(t)
                term_idx.append(i)
        recs.append(rec)
    codes = C.run_coq_cases(pid, mod.COQ_IMPORTS, terms, shard_size=getattr(mod, "COQ_SHARD", 150))
    for i, code in zip(term_idx, codes):
        recs[i]["code"] = -1 if code is None else code   # -1: coqc could not evaluate the model on this case
    return recs


def main():
    if len(sys.argv) < 3:
        print(__doc__)
        return 2
    pid = sys.argv[1]
    replay = None
    if sys.argv[2] == "--replay":
        replay = sys.argv[3]
        tier = "quick"
    else:
        tier = sys.argv[2]
    tier = os.environ.get("VERIF_TIER", tier) if sys.argv[2] != "--replay" else tier
    if tier not in ("quick", "thorough"):
        tier = "quick"
    seed = int(os.environ.get("VERIF_SEED", "20260930"))
    t0 = time.time()
    mod = importlib.import_module("props." + pid.lower())
    known = C.load_known(pid)
    broken = []      # (kind, name, detail): proof obligations / tie items that no longer check
    notes = []

    # ---- 1. builds
    ok_h, out_h = C.build_harness()
    if not ok_h:
        broken.append(("correspondence", "harness build against /repo",
                       "\n".join([l for l in out_h.splitlines() if "error" in l][:10]) or out_h[-1500:]))
    targets = ["Properties/%s.vo" % pid] + ["%s.vo" % t.replace(".", "/") for t in mod.COQ_IMPORTS]
    ok_c, out_c = C.build_coq(targets)
    if not ok_c:
        broken.append(("proof", failing_theorem(pid, out_c), out_c[-1500:]))

    # ---- 2. translator (optional per property)
    tie_items = []
    if hasattr(mod, "translate"):
        tie_items = mod.translate()   # list of (name, ok, detail)
        for name, ok, detail in tie_items:
            if not ok:
                # the regenerated definition is no longer the proved one: the theorems are not about this source any more
                broken.append(("translator tie", name, detail[:1500]))

    # ---- 3. proof obligations
    names, printed = theorem_names(pid)
    obligations = len(printed) + len(tie_items)
    discharged = 0
    axioms_seen = set()
    if ok_c:
        ok_p, out_p = C.compile_property(pid)
        if not ok_p:
            broken.append(("proof", failing_theorem(pid, out_p), out_p[-1500:]))
        else:
            blocks = C.parse_assumptions(out_p)
            if len(blocks) != len(printed):
                broken.append(("proof", "Print Assumptions output", "expected %d blocks, got %d" % (len(printed), len(blocks))))
            for nm, blk in zip(printed, blocks):
                bad = [a for a in blk if not C.axiom_ok(a)]
                axioms_seen |= set(a for a in blk if not C.is_primitive(a))
                if bad:
                    broken.append(("proof", nm, "depends on axioms outside the allow-list: %s" % bad))
                else:
                    discharged += 1
    bad = C.forbidden_grep()
    if bad:
        broken.append(("proof", "forbidden-constructs", "; ".join(bad[:10])))
    discharged += sum(1 for _, ok, _ in tie_items if ok)

    # ---- 4/5. correspondence + search
    recs = []
    if ok_h:
        if replay:
            rp = json.load(open(replay))
            cases = [C.dec(rp["case"])] if "case" in rp else []
        else:
            rng = random.Random(seed)
            cases = list(mod.corpus()) + list(mod.generate(rng, tier))
        recs = evaluate(mod, pid, cases) if ok_c else evaluate_impl_only(mod, pid, cases)

    # ---- 6. verdict
    violations = []      # (key, message, rec)
    known_hits = collections.OrderedDict()
    disagreements = []
    ambiguous = 0
    tags = collections.Counter()
    for rec in recs:
        tags[rec["tag"]] += 1
        for key, msg in rec["oracle"]:
            hit = [k for k in known if k[0] == key]
            if hit:
                known_hits.setdefault(key, hit[0][1])
            else:
                violations.append((key, msg, rec))
        code = rec["code"]
        if code is None:
            if "coq_render_error" in rec:
                disagreements.append((rec, "could not render the case for the model: " + rec["coq_render_error"]))
            continue
        if code == 100:
            ambiguous += 1
        elif code != 0:
            # a disagreement explained by a listed finding on the same case is not a new alarm; a property module can say
            # which checker codes a finding can explain (EXPLAINS = {key: {codes}}), otherwise it explains any code
            expl = getattr(mod, "EXPLAINS", {})
            if any(k in [kk[0] for kk in known] and (k not in expl or code in expl[k]) for k, _ in rec["oracle"]):
                continue
            disagreements.append((rec, "model evaluation failed inside coqc" if code == -1 else
                                  "model and implementation differ (checker code %d)" % code))

    exit_code = 0
    nrep = 0
    for key, desc in known_hits.items():
        print("KNOWN-FINDING: property=%s %s" % (pid, desc))
    reported = set()
    for key, msg, rec in violations:
        if key in reported:
            continue
        reported.add(key)
        path = save_replay(pid, seed, nrep, {"kind": "failing-input", "key": key, "message": msg,
                                             "case": rec["case"], "implementation_output": C.enc_result(rec["result"])
                                             if hasattr(C, "enc_result") else rec["result"]})
        nrep += 1
        print("VIOLATION property=%s replay=%s" % (pid, path))
        C.log("  %s: %s" % (key, msg))
        exit_code = 1
    if not violations:
        if disagreements:
            rec, msg = disagreements[0]
            path = save_replay(pid, seed, nrep, {"kind": "correspondence", "message": msg,
                                                 "no_longer_checks": "correspondence %s (tag %s)" % (rec["case"].get("k"), rec["tag"]),
                                                 "count": len(disagreements), "case": rec["case"],
                                                 "implementation_output": rec["result"]})
            nrep += 1
            print("VIOLATION property=%s replay=%s no-failing-input-found" % (pid, path))
            C.log("  %d disagreement(s); first: %s" % (len(disagreements), msg))
            exit_code = 1
        for kind, name, detail in broken:
            path = save_replay(pid, seed, nrep, {"kind": kind, "no_longer_checks": name, "detail": detail})
            nrep += 1
            print("VIOLATION property=%s replay=%s no-failing-input-found" % (pid, path))
            C.log("  %s no longer checks: %s" % (kind, name))
            exit_code = 1
    else:
        for kind, name, detail in broken:
            C.log("  also: %s no longer checks: %s" % (kind, name))

    # ---- 7. evidence
    compared = sum(1 for r in recs if r["code"] is not None)
    distinct = len(set((r["tag"], json.dumps(r["case"], sort_keys=True)) for r in recs if r["tag"] not in (None, "trivial", "tag-error")))
    samples = []
    seen_tags = set()
    for r in recs:
        if r["tag"] not in seen_tags and len(samples) < 6:
            seen_tags.add(r["tag"])
            samples.append({"tag": r["tag"], "case": r["case"], "implementation_output": r["result"], "model_check_code": r["code"]})
    if not samples:
        samples = [{"obligation": n} for n in printed[:3]] or [{"note": "no cases"}]
    ev = {
        "property_id": pid, "tier": tier, "seed": seed, "level": mod.LEVEL,
        "coverage": {
            "obligations": max(obligations, 1), "discharged": discharged,
            "checker_cmd": "cd /verif/coq && make -j16 Properties/%s.vo  (coqc 8.16.1, full .vo build; Print Assumptions output compared with the allow-list in tools/common.py)" % pid,
            "trusted_base": mod.TRUSTED_BASE + ["axioms printed by Print Assumptions on this run: " + ", ".join(sorted(axioms_seen))],
            "theorems": printed,
            "translator_tie": [{"name": n, "ok": ok} for n, ok, _ in tie_items],
            "evaluations": len(recs), "compared_with_model": compared, "ambiguous_not_compared": ambiguous,
            "disagreements_checked": len(disagreements), "programs": max(1, len(set(r["case"].get("k") for r in recs))),
            "distinct_nontrivial": distinct,
            "rule": mod.RULE,
            "tag_histogram": dict(tags),
            "samples": samples,
            "known_findings_hit": list(known_hits.keys()),
            "notes": notes,
        },
        "assumptions": mod.ASSUMPTIONS,
        "wall_s": round(time.time() - t0, 2),
        "violations": len(reported) + (0 if violations else len(disagreements) + len(broken)),
    }
    if replay is None:
        C.write_evidence(pid, ev)
    else:
        print(json.dumps({"replayed": replay, "oracle": [r["oracle"] for r in recs], "codes": [r["code"] for r in recs]}, default=str))
    C.log("%s %s: %d obligations (%d discharged), %d cases, %d compared, %d ambiguous, %d disagreements, %d violations, %.1fs"
          % (pid, tier, obligations, discharged, len(recs), compared, ambiguous, len(disagreements), len(reported), time.time() - t0))
    return exit_code


def evaluate_impl_only(mod, pid, cases):
    enc = [C.enc(c) for c in cases]
    results = C.run_harness(enc)
    recs = []
    for i, (c, r) in enumerate(zip(cases, results)):
        rec = {"case": enc[i], "result": r, "tag": None, "code": None, "oracle": []}
        try:
            rec["tag"] = mod.tag(c, r)
            rec["oracle"] = list(mod.oracle(c, r))
        except Exception as e:  # noqa
            rec["oracle"] = [("oracle-error", repr(e))]
        recs.append(rec)
    return recs


if __name__ == "__main__":
    sys.exit(main())
