#!/bin/sh
# tools/seedtest.sh <property> <seed-dir>: apply seeded patch to /repo, run the property's quick check, undo.
set -u
P=$1; D=$2
cd /repo && git status --short | grep -q . && { echo "/repo not clean"; exit 2; }
git -C /repo apply "$(cd /verif && realpath "$D")/patch.diff" || { echo "patch does not apply"; exit 2; }
cp /verif/evidence/$P.json /tmp/seedtest_$P.evidence 2>/dev/null
cd /verif && bin/vcheck $P ${3:-quick} > /tmp/seedtest_$P.out 2>&1; rc=$?
git -C /repo checkout -- .
cp /tmp/seedtest_$P.evidence /verif/evidence/$P.json 2>/dev/null
echo "rc=$rc"; grep -E "^VIOLATION|^KNOWN" /tmp/seedtest_$P.out | head -5; grep -E "^  [a-z0-9-]+:" /tmp/seedtest_$P.out | head -4; tail -1 /tmp/seedtest_$P.out
