#!/usr/bin/env python3
"""Regenerate MANIFEST.json from the table below (one entry per claimed property)."""
import json
import os

VERIF = os.path.dirname(os.path.dirname(os.path.abspath(__file__)))
REALS = "Coq Reals axioms (sig_not_dec, sig_forall_dec, functional_extensionality_dep, classic)"

CLAIMED = {
 "C01": dict(
  text="Coq theorems, generic in the vector operations and instantiated for Curve2 and Curve3: tolerance de-duplication leaves consecutive vertices farther apart than the tolerance, cumulative lengths start at 0, add one edge length per vertex (non-decreasing, strictly increasing on a constructed curve); a length outside [0,L] yields no station; every l in [0,L] yields a station with length_along = l, index+1 < count, fraction in [0,1], point = linear interpolation of the stored vertices, unit direction equal to the edge direction off the vertices; asking by fraction, by stored vertex length or by iteration gives the same station; the last vertex is (count-2, 1); 2D vertex/seam direction is the normalised sum of the adjacent edge directions (unit unless they cancel). The binary-search branch is proved to be the real-number branch for every finite binary64 key (stored lengths and ulp neighbours). Tie: differential correspondence requiring bit-identical vertex lists and cumulative lengths before stations are compared at 0, L, every stored length +-1 ulp, interior and outside.",
  note="Theorems over exact reals (" + REALS + "; FloatAxioms for the search lemmas). The spike (antiparallel neighbours) is excluded by hypothesis. Closest-point stations are C02.",
  technique="Rocq proof generic over vector operations + Flocq order embedding + differential correspondence"),
 "C05": dict(
  text="Coq theorems, generic in the vector operations and instantiated for Curve2/Curve3: by-count positions are n values from 0 to L inclusive spaced L/(n-1); ceil(L/s)+1 points give steps <= s; fixed-spacing positions are centred with equal margins in (0, s/2], exactly s apart, inside [0,L], and the loop terminates; every resampled vertex is the curve's point at a requested arc length (on an edge at a fraction in [0,1]), by-count resampling starts and ends at the curve's first and last vertices, in-range positions never panic; Ramer-Douglas-Peucker returns a subsequence keeping both end points with every dropped vertex within the tolerance of the segment between its nearest kept neighbours; gap filling keeps the originals in order with no consecutive pair above the maximum, inserting the smallest count n>=1 with d/(n+1) <= max, and terminates. Tie: differential correspondence requiring bit-identical resampled, simplified, RDP and gap-filled point lists, plus oracles for every clause on the implementation's output.",
  note="Theorems over exact reals (" + REALS + "). One open known finding (Curve2::simplify on a closed curve whose vertices are all within the tolerance of the first). The chord-error clause on the length (resampled length <= original) is checked by the oracle per case, not proved. Requests for which no curve exists (a single sample) are accepted as rejected.",
  technique="Rocq proof generic over vector operations + differential correspondence"),
 "C19": dict(
  text="Coq theorems: each of the six try_from_basis_* constructors, when it succeeds, returns an orthonormal triple with e0 x e1 = e2 whose primary axis is the normalised first argument and whose secondary axis has positive dot product with the second argument; it fails exactly when the first argument has norm <= 1e-10 or the sine of the angle is <= 1e-10 (third normalisation never fails); the weighted mean is invariant under uniform scaling of the weights; to_basis and from_basis are mutually inverse for an orthonormal basis (completeness by Groebner basis); planes from point+normal and from three points contain their defining points with a unit normal, projection lands on the plane, is idempotent and fixes points of the plane, inversion flips the signed distance. Tie: differential correspondence on frames, centres, variances, rank, basis coordinates, planes; nalgebra's SVD and quaternion conversion are certified per run (orthonormal basis, non-increasing singular values, eigen-pair residual of the scatter matrix).",
  note="Theorems over exact reals (" + REALS + "). SVD itself is an oracle certified per run, not proved. One open known finding: nalgebra's SVD loses the largest singular value (up to 20%) on numerically rank-deficient point sets. Equivariance under rigid motion is covered by C03.",
  technique="Rocq proof (vector algebra, nsatz) + per-run certificate of the SVD oracle + differential correspondence"),
 "C09": dict(
  text="Coq theorems over the model of polynomial.rs / series1.rs / circle2.rs: the accumulated sums are the weighted power sums of every order 0..2K (the order-K sum included) and the right-hand side the weighted moments; any solution of the normal equations has a residual orthogonal to every monomial column, hence minimises the weighted sum of squares for non-negative weights; exact polynomial data solve the normal equations with their own coefficients (recovery under uniqueness); the closed-form series line solves the degree-1 normal equations; the three-point circle passes through its points and collinear triples are rejected; each circle-fit Jacobian entry is the derivative (Coquelicot is_derive) of the weighted radial residual; the RANSAC bookkeeping returns a candidate of maximal inlier count. Tie: the implementation's coefficients must solve the MODEL's normal equations row by row; the LM problem is driven through set_params histories via a feature-gated hook and compared with the model; LM convergence/recovery and RANSAC support are certified per run by oracles.",
  note="Theorems over exact reals (" + REALS + "). Matrix inverse, levenberg-marquardt and the RANSAC index stream are oracles; convergence is per-run (partial). Known finding: the normal-equation solve loses accuracy in proportion to the Hankel condition number (KNOWN_FINDINGS.txt).",
  technique="Rocq proof (finite-sum algebra, Coquelicot derivatives) + normal-equation residual tie + per-run certificates"),
 "C11": dict(
  text="Coq theorems over the model of circle2.rs / aabb2.rs: the number of circle-circle intersections is 0 / 1 / 2 exactly for the separate-nested-concentric / touching-band / crossing configurations; in the two-point branch the radicand is non-negative (no NaN) and both points lie on both circles; tangent points exist iff the point is outside, lie on the circle and the tangent is perpendicular to the radius for every d/r > 1; both line-circle parameters give points on the circle; a three-point arc starts at its first and ends at its third point; arc length / point-at-length / point-at-fraction are consistent; the circle bounding box contains the circle and touches it on all four sides. Tie: differential correspondence per configuration class with threshold-margin cases counted as ambiguous; oracles check the defining constraints on the implementation's outputs (arc bounding boxes by dense sampling).",
  note="Theorems over exact reals (" + REALS + "). Not proved (oracle only): arc bounding-box containment/tightness, sweep sign and pass-through of three-point arcs, outer tangents. Points returned in the 1e-10 touching bands are on both circles only up to the band width.",
  technique="Rocq proof (real algebra, trigonometric identities, atan2 polar form) + differential correspondence + constraint oracles"),
 "C12": dict(
  text="Coq theorems (all closed under the global context, no axioms) over the model of edges.rs / patches.rs / raster3.rs / indices.rs: the edge table is strictly sorted with exact multiplicities and every face maps to its three edges; boundary-loop extraction terminates within |boundary edges|+1 steps per loop for EVERY edge list and consumes every boundary edge exactly once; under even boundary degree (checked on every explored mesh) every loop is a closed vertex cycle joined by the consumed edges; the patch decomposition is a partition and two faces share a patch iff they are connected through shared edges, for every hash-iteration oracle; voxel clusters partition the set and index chaining consumes each pair exactly once, always terminating; box table consistently wound/closed with outward normals for all positive dimensions; cylinder outward for all steps >= 3 (winding by complete computation for steps 3..64). Tie: exact differential comparison with the implementation (loops, tables, chains exactly; patches/clusters as sets under two oracles) and regeneration of the box tables from the Rust source.",
  note="No axioms for the discrete theorems; generator geometry over exact reals (Coq Reals axioms). HashSet order modelled as an arbitrary pick oracle. Even-degree of boundary vertices is a hypothesis of the closed-cycle theorem, evaluated by the checker on every mesh. Cluster 26-connectivity maximality is checked by oracle per run, not proved.",
  technique="Rocq proof by induction/invariants over fuelled graph algorithms with order oracles + exact differential correspondence"),
 "C14": dict(
  text="Coq theorems (closed under the global context): Add/Remove/Keep through mutate, mutate_pass_list and near_mesh are union/difference/intersection with the set of faces satisfying a cache-free per-face criterion, for EVERY iteration order of the selection HashSet and whatever the per-vertex cache already holds (cache invariant); create_from_indices keeps exactly the used vertices and rebuilds every selected triangle with the same vertices in the same order. Tie: the selection after every step of random chains is compared with the implementation as a set (4 in-process runs, model under two orders), geometry facts supplied cache-free through the public API; create_from_indices compared exactly.",
  note="No axioms. The geometric facts (projection within tolerance, angle between normals) are oracles of the model (parry through engeom's API; C02). Empty selections cannot become a mesh (parry rejects an empty TriMesh).",
  technique="Rocq proof (cache invariant, set algebra for every iteration order) + differential correspondence"),
 "C16": dict(
  text="Machine-checked Coq theorems over the model of line_profiles/measurement/dimension/surface_deviation/point_cloud/tolerance_map: deviation magnitude, sign and reconstruction for all points; extremes and zone after every construct/push history; parallel-vector invariant and reject-is-noop for every point-cloud history; tolerance-map lookup spec for every sorted table. The model is tied to /repo on every run by differential correspondence (model evaluated at binary64 inside coqc against the compiled implementation); property oracles on the implementation's outputs produce replays.",
  note="Theorems over exact reals (" + REALS + "); rounding modelled not verified; the closest-point query feeding the deviation is an input (C02). Model hand-written; correspondence is differential testing on generated cases.",
  technique="Rocq proof (induction over histories, real algebra) + differential model/implementation correspondence"),
 "C17": dict(
  text="Coq theorems over the model of discrete_domain.rs / series1.rs: try_from accepts exactly the ascending vectors (also proved for binary64: on finite floats the check decides the real ordering); push accepts exactly values not below the last and preserves validity; linear has n ascending values spanning min..max and is symmetric in its bounds; scaling by any factor (negative reverses) and shifting keep validity; interpolation is None outside, a stored ordinate at a knot, the linear blend strictly inside an interval; index_of returns the last breakpoint not above x; resampled abscissae are n ascending values from x_min to x_max inside the domain; every reported level crossing lies on the graph at the level and every strictly bracketing segment contributes its crossing. Tie: differential correspondence on repeated knots, 1-2 element series, ulp neighbours of knots, both bound orders, negative scale factors.",
  note="Theorems over exact reals (" + REALS + "; FloatAxioms for the binary64 validity lemma). NOT proved (checked per run by oracles only): a slice evaluates like its parent, split areas add up. binary search is its specification (any index among equal keys).",
  technique="Rocq proof over a hand model + differential correspondence; Flocq order embedding for the validity check"),
 "C18": dict(
  text="Coq theorems for every finite angle / vector pair / (start, extent) / bound pair: range and same-direction of both normalisers, directed-angle range, rotation and cw+ccw laws, atan2-based vector angles, angular-interval sandwich (sound up to ANGLE_TOL, complete for swept angles), negative extent = same set, scalar-interval set algebra; the scalar-interval theorems are also proved for binary64 itself (every finite float). The Gallina definitions are REGENERATED from /repo's Rust source on every run by tools/rs2v.py and checked convertible with the proved model (one reflexivity obligation per function); a differential correspondence on boundary values is the second tie.",
  note="Angle theorems over exact reals (" + REALS + "); binary64 interval theorems additionally rely on the standard library's FloatAxioms; translator rs2v.py and the correspondence harness are trusted; intersects completeness is not proved (soundness is).",
  technique="Rocq proof over a model regenerated from the Rust source (translator + reflexivity), Flocq order embedding for binary64"),
}

def main():
    props = [json.loads(l) for l in open(os.path.join(VERIF, "properties.jsonl"))]
    m = {
     "version": 1,
     "setup_cmd": "bin/setup",
     "hooks": {"guard": "cargo feature 'verif' of the engeom crate",
               "enable": "harness/Cargo.toml depends on engeom = { path = \"/repo\", features = [\"verif\"] }",
               "baseline_off_cmd": "cd /repo && cargo test --workspace --no-fail-fast --offline",
               "source_commits": json.load(open(os.path.join(VERIF, "hooks.json")))["commits"], "add_only": True},
     "engines": [{"name": "vcheck", "path": "bin/vcheck", "serves_properties": sorted(CLAIMED),
                  "kind_free_text": "Rocq (Coq 8.16) proofs over a hand-written + translated model; tie = translator regeneration and differential correspondence (model at binary64 inside coqc vs implementation); search = property oracles on implementation outputs"}],
     "checks": [], "not_applicable": [],
     "notes": "See DESIGN.md. Checks are added property by property; unclaimed properties are listed under not_applicable until their check exists.",
    }
    for pid in sorted(CLAIMED):
        c = CLAIMED[pid]
        m["checks"].append({
            "property_id": pid, "quick_cmd": "bin/vcheck %s quick" % pid, "thorough_cmd": "bin/vcheck %s thorough" % pid,
            "evidence_file": "/verif/evidence/%s.json" % pid, "replay_cmd_template": "bin/vcheck %s --replay {path}" % pid,
            "engine": "vcheck",
            "level_claimed": {"category": c.get("category", "proof"), "text": c["text"], "design_ref": "DESIGN.md section 7 (%s)" % pid},
            "level_note": c["note"], "technique": c["technique"]})
    for p in props:
        if p["id"] not in CLAIMED:
            m["not_applicable"].append({"property_id": p["id"], "reason": "check not built yet in this round (work in progress; design in DESIGN.md section 7)"})
    json.dump(m, open(os.path.join(VERIF, "MANIFEST.json"), "w"), indent=1)

if __name__ == "__main__":
    main()
