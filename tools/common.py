"""Shared machinery for the engeom verification driver."""
import fcntl
import json
import math
import os
import re
import struct
import subprocess
import sys
import time

VERIF = os.path.dirname(os.path.dirname(os.path.abspath(__file__)))
COQ = os.path.join(VERIF, "coq")
HARNESS = os.path.join(VERIF, "harness")
WORK = os.path.join(VERIF, "work")
REPO = "/repo"
VH = os.path.join(HARNESS, "target", "release", "vh")

AXIOM_ALLOW = {
    # Coq's axiomatisation of the reals (every theorem over R)
    "ClassicalDedekindReals.sig_not_dec",
    "ClassicalDedekindReals.sig_forall_dec",
    "FunctionalExtensionality.functional_extensionality_dep",
    "Classical_Prop.classic",
    # primitive floats: the standard library's specification of the kernel's IEEE operations
    "FloatAxioms.ltb_spec", "FloatAxioms.leb_spec", "FloatAxioms.eqb_spec", "FloatAxioms.compare_spec",
    "FloatAxioms.add_spec", "FloatAxioms.sub_spec", "FloatAxioms.mul_spec", "FloatAxioms.div_spec",
    "FloatAxioms.sqrt_spec", "FloatAxioms.opp_spec", "FloatAxioms.abs_spec",
    "FloatAxioms.Prim2SF_valid", "FloatAxioms.SF2Prim_Prim2SF", "FloatAxioms.Prim2SF_SF2Prim",
    "FloatAxioms.Prim2SF_inj", "FloatAxioms.classify_spec", "FloatAxioms.of_uint63_spec",
    "FloatAxioms.normfr_mantissa_spec", "FloatAxioms.frshiftexp_spec", "FloatAxioms.ldshiftexp_spec",
    "FloatAxioms.next_up_spec", "FloatAxioms.next_down_spec",
}
# kernel primitives that Print Assumptions lists but which are not axioms
PRIMITIVE_PREFIXES = ("PrimFloat.", "PrimInt63.", "Uint63.", "Int63.", "Sint63.", "CarryType.", "Uint63Axioms.",
                      "FloatOps.", "SpecFloat.", "PrimString.", "PArray.")


# ---------------------------------------------------------------- floats

def f2h(x):
    return struct.pack(">d", float(x)).hex()


def h2f(s):
    return struct.unpack(">d", bytes.fromhex(s))[0]


def nextafter(x, direction):
    return math.nextafter(x, direction)


def coq_float(x):
    x = float(x)
    if math.isnan(x):
        return "nan"
    if math.isinf(x):
        return "infinity" if x > 0 else "neg_infinity"
    h = x.hex()
    if h.startswith("-"):
        return "(%s)" % h
    return h


def coq(v):
    """Python value -> Coq term. floats -> hex literals, ints -> Z, bools, None/('Some',x), lists, tuples."""
    if isinstance(v, bool):
        return "true" if v else "false"
    if isinstance(v, int):
        return "%d%%Z" % v if v >= 0 else "(%d)%%Z" % v
    if isinstance(v, float):
        return coq_float(v)
    if v is None:
        return "None"
    if isinstance(v, Some):
        return "(Some %s)" % coq(v.v)
    if isinstance(v, Nat):
        return "%d%%nat" % v.v
    if isinstance(v, Raw):
        return v.s
    if isinstance(v, list):
        return "[" + "; ".join(coq(x) for x in v) + "]"
    if isinstance(v, tuple):
        return "(" + ", ".join(coq(x) for x in v) + ")"
    raise TypeError("cannot render %r" % (v,))


class Some:
    def __init__(self, v):
        self.v = v


class Nat:
    def __init__(self, v):
        self.v = v


class Raw:
    def __init__(self, s):
        self.s = s


def opt(v):
    return None if v is None else Some(v)


def dec(v):
    """Decode harness JSON: hex strings -> floats (recursively)."""
    if isinstance(v, str) and len(v) == 16 and re.fullmatch(r"[0-9a-f]{16}", v):
        return h2f(v)
    if isinstance(v, list):
        return [dec(x) for x in v]
    if isinstance(v, dict):
        return {k: dec(x) for k, x in v.items()}
    return v


def enc(v):
    """Encode floats as hex strings for the harness (ints stay ints)."""
    if isinstance(v, bool) or v is None or isinstance(v, (int, str)):
        return v
    if isinstance(v, float):
        return f2h(v)
    if isinstance(v, (list, tuple)):
        return [enc(x) for x in v]
    if isinstance(v, dict):
        return {k: enc(x) for k, x in v.items()}
    raise TypeError(v)


def close(a, b, tol=1e-9):
    if math.isnan(a) or math.isnan(b):
        return math.isnan(a) and math.isnan(b)
    if a == b:
        return True
    return abs(a - b) <= tol * max(1.0, abs(a), abs(b))


# ---------------------------------------------------------------- locking / running

class Lock:
    def __init__(self, name):
        os.makedirs(WORK, exist_ok=True)
        self.path = os.path.join(WORK, ".lock_" + name)

    def __enter__(self):
        self.f = open(self.path, "w")
        fcntl.flock(self.f, fcntl.LOCK_EX)
        return self

    def __exit__(self, *a):
        fcntl.flock(self.f, fcntl.LOCK_UN)
        self.f.close()


def run(cmd, cwd=None, timeout=3600, env=None, input=None):
    e = dict(os.environ)
    e.update({"CARGO_NET_OFFLINE": "true", "CARGO_TARGET_DIR": os.path.join(HARNESS, "target")})
    if env:
        e.update(env)
    p = subprocess.run(cmd, cwd=cwd, timeout=timeout, env=e, input=input, capture_output=True, text=True)
    return p.returncode, p.stdout, p.stderr


def log(*a):
    print(*a, file=sys.stderr, flush=True)


# ---------------------------------------------------------------- builds

def build_coq(targets=None):
    """Full .vo build (never -vos) of the given targets' dependency cones; returns (ok, output)."""
    with Lock("coq"):
        if not os.path.exists(os.path.join(COQ, "Makefile")) or \
                os.path.getmtime(os.path.join(COQ, "Makefile")) < os.path.getmtime(os.path.join(COQ, "_CoqProject")):
            rc, out, err = run(["coq_makefile", "-f", "_CoqProject", "-o", "Makefile"], cwd=COQ)
            if rc != 0:
                return False, out + err
        cmd = ["timeout", "3000", "make", "-j16"] + (targets or [])
        rc, out, err = run(cmd, cwd=COQ, timeout=3100)
        return rc == 0, out + err


def compile_property(pid):
    """Recompile Properties/<pid>.v (after its cone is up to date) and capture Print Assumptions output."""
    vo = os.path.join(COQ, "Properties", pid + ".vo")
    with Lock("coq"):
        if os.path.exists(vo):
            os.remove(vo)
        rc, out, err = run(["timeout", "3000", "make", "-j16", "Properties/%s.vo" % pid], cwd=COQ, timeout=3100)
    return rc == 0, out + err


def parse_assumptions(out):
    """Return list of blocks; each block = set of axiom names (empty set = closed)."""
    blocks = []
    cur = None
    for line in out.splitlines():
        if line.startswith("Closed under the global context"):
            blocks.append(set())
            cur = None
        elif line.startswith("Axioms:"):
            cur = set()
            blocks.append(cur)
        elif cur is not None:
            m = re.match(r"^([A-Za-z_][\w.']*)\s*(:|$)", line)
            if m and not line.startswith(" "):
                cur.add(m.group(1))
            elif line.startswith(("COQC", "COQDEP", "make", "File ")):
                cur = None
    return blocks


# Print Assumptions prints the shortest unambiguous name, so the FloatAxioms / PrimFloat / PrimInt63 entries
# may appear unqualified when Floats is imported.
FLOAT_AXIOMS_SHORT = {a.split(".", 1)[1] for a in AXIOM_ALLOW if a.startswith("FloatAxioms.")}
PRIMITIVES_SHORT = {"float", "int", "add", "sub", "mul", "div", "sqrt", "opp", "abs", "eqb", "ltb", "leb", "compare",
                    "classify", "of_uint63", "ldshiftexp", "frshiftexp", "normfr_mantissa", "next_up", "next_down",
                    "lsl", "lsr", "land", "lor", "lxor", "addc", "subc", "mod", "head0", "tail0", "diveucl",
                    "addcarryc", "subcarryc", "mulc", "diveucl_21", "addmuldiv", "asr", "divs", "mods", "ltsb", "lesb", "compares"}


def is_primitive(name):
    return name.startswith(PRIMITIVE_PREFIXES) or name in PRIMITIVES_SHORT


def axiom_ok(name):
    return name in AXIOM_ALLOW or name in FLOAT_AXIOMS_SHORT or is_primitive(name)


def forbidden_grep():
    """No Admitted/admit/Axiom/... anywhere in the development."""
    pat = r"\b(Admitted|admit|Axiom|Axioms|Parameter|Parameters|Conjecture|Admit Obligations|bypass_check|Unset Guard Checking|Unset Positivity Checking|Unset Universe Checking|type-in-type|impredicative-set)\b"
    bad = []
    for root, _, files in os.walk(COQ):
        for f in files:
            if f.endswith(".v") or f == "_CoqProject":
                path = os.path.join(root, f)
                txt = open(path).read()
                txt = re.sub(r"\(\*.*?\*\)", "", txt, flags=re.S)
                for m in re.finditer(pat, txt):
                    bad.append("%s: %s" % (os.path.relpath(path, COQ), m.group(0)))
    # Variable/Hypothesis outside a section is not checked textually; Print Assumptions would list it.
    return bad


def build_harness():
    with Lock("cargo"):
        lock_src = os.path.join(REPO, "Cargo.lock")
        lock_dst = os.path.join(HARNESS, "Cargo.lock")
        if not os.path.exists(lock_dst):
            import shutil
            shutil.copy(lock_src, lock_dst)
        rc, out, err = run(["timeout", "3000", "cargo", "build", "--release", "--offline"], cwd=HARNESS, timeout=3100)
        return rc == 0, out + err


def run_harness(cases, timeout=1800, shards=8):
    """cases: list of dicts (already encoded). Returns list of decoded results (same order).
    The harness leaves (exit code 3) after a case that ran into its watchdog, because the stuck worker thread cannot be
    killed; the remaining cases of the shard are then given to a fresh process."""
    if not cases:
        return []
    n = len(cases)
    shards = max(1, min(shards, n // 20 + 1))
    chunks = [cases[i::shards] for i in range(shards)]
    import threading
    per = [None] * len(chunks)

    def work(i, ch):
        rs = []
        rest = list(ch)
        deadline = time.time() + timeout
        while rest:
            inp = "\n".join(json.dumps(c) for c in rest) + "\n"
            p = subprocess.Popen([VH], stdin=subprocess.PIPE, stdout=subprocess.PIPE, stderr=subprocess.DEVNULL, text=True)
            try:
                o, _ = p.communicate(inp, timeout=max(1.0, deadline - time.time()))
            except subprocess.TimeoutExpired:
                p.kill()
                o = ""
            lines = [l[6:] for l in (o or "").splitlines() if l.startswith("@@VH@@")]
            got = 0
            for l in lines[:len(rest)]:
                try:
                    rs.append(dec(json.loads(l)))
                except Exception:
                    rs.append({"harness_error": True})
                got += 1
            if got == len(rest):
                break
            if got == 0 or p.returncode != 3:
                # the process died without a verdict for the next case (crash, kill, overall deadline): one error, go on
                rs.append({"harness_error": True})
                got += 1
            rest = rest[got:]
            if time.time() > deadline:
                rs.extend({"harness_error": True} for _ in rest)
                break
        per[i] = rs

    ths = [threading.Thread(target=work, args=(i, ch)) for i, ch in enumerate(chunks)]
    for t in ths:
        t.start()
    for t in ths:
        t.join()
    out = [None] * n
    for s in range(shards):
        for j, r in enumerate(per[s]):
            out[s + j * shards] = r
    return out


# ---------------------------------------------------------------- model evaluation inside coqc

def run_coq_cases(pid, imports, terms, shard_size=150, prelude=""):
    """terms: list of Coq terms of type Z. Evaluates each with vm_compute; returns list of ints (None on failure)."""
    if not terms:
        return []
    d = os.path.join(WORK, pid)
    os.makedirs(d, exist_ok=True)
    for f in os.listdir(d):
        if f.startswith("cases_"):
            os.remove(os.path.join(d, f))
    shards = [terms[i:i + shard_size] for i in range(0, len(terms), shard_size)]
    procs = []
    for si, sh in enumerate(shards):
        path = os.path.join(d, "cases_%d.v" % si)
        with open(path, "w") as f:
            f.write("From Coq Require Import ZArith List Floats.\nImport ListNotations.\n")
            f.write("From EG Require Import Num.Num Num.FNum Lib.Vec %s.\n" % " ".join(imports))
            f.write("Set Warnings \"-inexact-float\".\nOpen Scope float_scope.\n")
            f.write(prelude + "\n")
            for t in sh:
                f.write("Eval vm_compute in (%s).\n" % t)
        procs.append((path, sh))
    results = []
    running = []
    idx = 0
    outs = {}
    maxpar = 16
    pending = list(enumerate(procs))
    while pending or running:
        while pending and len(running) < maxpar:
            si, (path, sh) = pending.pop(0)
            p = subprocess.Popen(["timeout", "900", "coqc", "-noglob", "-Q", COQ, "EG", path],
                                 cwd=d, stdout=subprocess.PIPE, stderr=subprocess.PIPE, text=True)
            running.append((si, p))
        si, p = running.pop(0)
        o, e = p.communicate()
        outs[si] = (p.returncode, o, e)
    for si, (path, sh) in enumerate(procs):
        rc, o, e = outs[si]
        vals = re.findall(r"=\s*\(?(-?\d+)\)?%Z", o)
        if rc != 0 or len(vals) != len(sh):
            log("coqc failed on %s rc=%s: %s" % (path, rc, (e or o)[-800:]))
            results.extend([None] * len(sh))
        else:
            results.extend(int(v) for v in vals)
    return results


# ---------------------------------------------------------------- known findings

def load_known(pid):
    path = os.path.join(VERIF, "KNOWN_FINDINGS.txt")
    opens = []
    if os.path.exists(path):
        for line in open(path):
            line = line.strip()
            m = re.match(r"open:\s+property=(\S+)\s+key=(\S+)\s+(.*)", line)
            if m and m.group(1) == pid:
                opens.append((m.group(2), m.group(3)))
    return opens


def write_evidence(pid, ev):
    os.makedirs(os.path.join(VERIF, "evidence"), exist_ok=True)
    with open(os.path.join(VERIF, "evidence", pid + ".json"), "w") as f:
        json.dump(ev, f, indent=1, default=str)


# ---------------------------------------------------------------- translator tie (regenerated every run)

def translator_tie(specs):
    """specs: list of dict(rust=<path under /repo>, gen=<module name under Gen>, model=<EG module of the
    hand-written definitions>, fns=[coq names], types=<import string>, extra_structs/extra_enums, fields=[type names]).
    Regenerates coq/Gen/<gen>.v from the Rust source, compiles it, and checks `@Gen.f = @Model.f` by reflexivity,
    one obligation per function.  Returns [(name, ok, detail)]."""
    import rs2v
    items = []
    gen_dir = os.path.join(COQ, "Gen")
    os.makedirs(gen_dir, exist_ok=True)
    with Lock("gen"):
        for sp in specs:
            for f in os.listdir(gen_dir):
                if f.startswith(sp["gen"] + ".") or f.startswith("tie_%s_" % sp["gen"]):
                    os.remove(os.path.join(gen_dir, f))
            path = os.path.join(REPO, sp["rust"])
            try:
                txt, res, _, _ = rs2v.translate_file(path, sp["gen"], set(sp["fns"]) | set(sp.get("stmts", {})) | set(sp.get("aux", [])), sp.get("types", "Model.Types"),
                                                    sp.get("extra_structs"), sp.get("extra_enums"), sp.get("call_map"), sp.get("type_map"), tuple(sp.get("trait_impls", ())), sp.get("method_map"), sp.get("call_ty"))
            except Exception as e:  # noqa
                for fn in list(sp["fns"]) + list(sp.get("stmts", {})):
                    items.append(("%s.%s" % (sp["gen"], fn), False, "translator failed on %s: %r" % (sp["rust"], e)))
                continue
            gpath = os.path.join(gen_dir, sp["gen"] + ".v")
            open(gpath, "w").write(txt)
            rc, out, err = run(["timeout", "300", "coqc", "-noglob", "-Q", COQ, "EG", gpath], cwd=COQ)
            if rc != 0:
                for fn in list(sp["fns"]) + list(sp.get("stmts", {})):
                    items.append(("%s.%s" % (sp["gen"], fn), False, "generated file does not compile: " + (err or out)[-400:]))
                continue
            procs = []
            names = [(fn, "@EG.Gen.%s.%s" % (sp["gen"], fn), "@EG.%s.%s" % (sp["model"], fn)) for fn in sp["fns"] if fn not in sp.get("stmts", {})]
            names += [("fields_" + t, "EG.Gen.%s.fields_%s" % (sp["gen"], t), "EG.Model.Types.fields_%s" % t) for t in sp.get("fields", [])]
            for fn, g, m in names:
                if res.get(fn) is not None and not fn.startswith("fields_"):
                    items.append(("%s.%s" % (sp["gen"], fn), False, res[fn]))
                    continue
                tpath = os.path.join(gen_dir, "tie_%s_%s.v" % (sp["gen"], fn))
                open(tpath, "w").write(
                    "From EG Require Import Num.Num Model.Types %s Gen.%s.\n"
                    "Lemma tie : %s = %s.\nProof. reflexivity. Qed.\n" % (sp["model"], sp["gen"], g, m))
                p = subprocess.Popen(["timeout", "120", "coqc", "-noglob", "-Q", COQ, "EG", tpath], cwd=COQ,
                                     stdout=subprocess.PIPE, stderr=subprocess.PIPE, text=True)
                procs.append((fn, p))
            # functions whose model counterpart has another name or another record type: an explicit statement, proved by conversion
            for fn, stmt in sp.get("stmts", {}).items():
                if res.get(fn) is not None:
                    items.append(("%s.%s" % (sp["gen"], fn), False, res[fn]))
                    continue
                tpath = os.path.join(gen_dir, "tie_%s_%s.v" % (sp["gen"], fn))
                open(tpath, "w").write(
                    "From Coq Require Import ZArith List.\nFrom EG Require Import Num.Num Lib.Vec Model.Types %s Gen.%s.\n"
                    "Lemma tie : %s.\nProof. %s Qed.\n" % (sp["model"], sp["gen"],
                        stmt.replace("{G}", "EG.Gen.%s" % sp["gen"]).replace("{M}", "EG.%s" % sp["model"]),
                        sp.get("proofs", {}).get(fn, "intros; reflexivity.").replace("{G}", "EG.Gen.%s" % sp["gen"]).replace("{M}", "EG.%s" % sp["model"])))
                p = subprocess.Popen(["timeout", "120", "coqc", "-noglob", "-Q", COQ, "EG", tpath], cwd=COQ,
                                     stdout=subprocess.PIPE, stderr=subprocess.PIPE, text=True)
                procs.append((fn, p))
            for fn, p in procs:
                o, e = p.communicate()
                items.append(("%s.%s" % (sp["gen"], fn), p.returncode == 0,
                              "" if p.returncode == 0 else "regenerated definition is not convertible with the model: " + (e or o)[-300:]))
    return items
